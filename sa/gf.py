"""GF: guard-fact dataflow over *values* (an SSA-like refinement of DESIGN 2.2).

State = (env: variable -> symbolic term, facts: set of atoms over terms). Terms denote immutable
run-time values, so a fact never has to be killed when a variable is reassigned -- the variable
simply points to another term. At control-flow joins variables whose terms differ get a phi term
and a *candidate* fact about the joined values is kept iff every predecessor entails it (after
substituting that predecessor's own terms back) -- so loop invariants are exactly the candidates
that survive the back edge. Callees are handled modularly through contracts (sa/contracts.py);
``calculate_contrast_ratio`` and ``calculate_delta_e_2000`` are uninterpreted (symmetric) function
symbols. Floats are treated as a total order (assumption A1: no NaN).

Terms (hashable tuples)
  ('param', n) ('const', v) ('phi', node, var) ('elem', node) ('opq', node, k) ('global', q)
  ('call', q, (args...)) ('tuple', (..)) ('list', (..)) ('item', t, k) ('attr', t, name)
  ('cmp', op, a, b) ('not', t) ('bin', op, a, b) ('max', S) ('cr', a, b) ('de', a, b) ('unbound', n)
Atoms
  ('ge', a, b) ('gt', a, b) ('eq', a, b) ('ne', a, b) ('truthy', t) ('falsy', t) ('isnone', t) ('notnone', t)
  ('within', v, src, bound)   v is src, or dE(src, v) <= bound
  ('elem', t, S)  ('valid8', v)  ('chainstep', v, x, bg)  ('chain', v, origin, bg)  ('imp', guard, atom)
"""
from __future__ import annotations

import ast
import itertools
from typing import Dict, FrozenSet, List, Optional, Set, Tuple

from .cfg import CFG, Node, build_cfg
from .dataflow import solve
from .loader import AnalysisError, FuncInfo, Project, norm_text
from .resolve import Scope, bind_args

CR_FN = "cm_colors.core.contrast.calculate_contrast_ratio"
DE_FN = "cm_colors.core.color_metrics.calculate_delta_e_2000"
COLOR_CLS = "cm_colors.core.colors.Color"
# colour-preserving wrappers: the value denotes the same colour as its first argument
# (that they really are the identity on colours is the numeric part of C06; assumption of C01/C02)
WRAPPERS = {"cm_colors.core.conversions.rgbint_to_string", "cm_colors.core.color_parser.format_color",
            "cm_colors.core.conversions.rgb_to_hex", "cm_colors.core.conversions.rgb_to_hsl", "builtins.str", "builtins.tuple"}
PURE = {"cm_colors.core.conversions.rgb_to_oklch_safe", "cm_colors.core.conversions.oklch_to_rgb_safe",
        "cm_colors.core.conversions.is_valid_rgb", "cm_colors.core.contrast.get_wcag_level", "builtins.range", "builtins.float",
        "builtins.max", "builtins.min", "builtins.abs", "builtins.round", "builtins.len"}

CMP_OPS = {ast.GtE: ">=", ast.Gt: ">", ast.LtE: "<=", ast.Lt: "<", ast.Eq: "==", ast.NotEq: "!=", ast.Is: "is", ast.IsNot: "is not"}
K_NONE = ("const", None)
K_TRUE = ("const", True)
K_FALSE = ("const", False)


def K(v):
    return ("const", v)


def P(n):
    return ("param", n)


# --------------------------------------------------------------------------- term helpers
def norm_colour(t):
    """Strip colour-preserving wrappers: the colour a value denotes."""
    while True:
        if t[0] == "call" and t[1] in WRAPPERS and t[2]:
            t = t[2][0]
            continue
        if t[0] == "attr" and t[2] in ("rgb", "_rgb") and t[1][0] == "call" and t[1][1] == COLOR_CLS and t[1][2]:
            t = t[1][2][0]
            continue
        if t[0] == "item" and t[1][0] == "tuple" and isinstance(t[2], int) and 0 <= t[2] < len(t[1][1]):
            t = t[1][1][t[2]]
            continue
        return t


def CR(a, b):
    a, b = norm_colour(a), norm_colour(b)
    if repr(a) > repr(b):      # symmetric (shape proved under C05)
        a, b = b, a
    return ("cr", a, b)


def DE(a, b):
    a, b = norm_colour(a), norm_colour(b)
    if repr(a) > repr(b):      # CIEDE2000 is symmetric
        a, b = b, a
    return ("de", a, b)


def ITEM(t, k):
    if t[0] in ("tuple", "list") and isinstance(k, int) and -len(t[1]) <= k < len(t[1]):
        return t[1][k]
    return ("item", t, k)


def MAX(S):
    if S[0] in ("list", "tuple") and S[1] and all(x[0] == "const" and isinstance(x[1], (int, float)) for x in S[1]):
        return K(max(x[1] for x in S[1]))
    return ("max", S)


def subterms(t):
    yield t
    if isinstance(t, tuple):
        for x in t[1:]:
            if isinstance(x, tuple):
                if x and isinstance(x[0], str):
                    yield from subterms(x)
                else:
                    for y in x:
                        if isinstance(y, tuple):
                            yield from subterms(y)


def is_term(x):
    return isinstance(x, tuple) and bool(x) and isinstance(x[0], str)


def map_term(t, f):
    """Bottom-up rebuild; f is applied top-down first (returns replacement or None)."""
    r = f(t)
    if r is not None:
        return r
    if not isinstance(t, tuple):
        return t
    out = [t[0]]
    for x in t[1:]:
        if is_term(x):
            out.append(map_term(x, f))
        elif isinstance(x, tuple):
            out.append(tuple(map_term(y, f) if is_term(y) else y for y in x))
        else:
            out.append(x)
    res = tuple(out)
    return rebuild(res)


def rebuild(t):
    """Re-apply smart constructors after a substitution."""
    k = t[0]
    if k == "cr":
        return CR(t[1], t[2])
    if k == "de":
        return DE(t[1], t[2])
    if k == "item":
        return ITEM(t[1], t[2])
    if k == "max":
        return MAX(t[1])
    return t


def mentions(t, pred) -> bool:
    return any(pred(s) for s in subterms(t))


def site_of(t) -> Optional[int]:
    if t[0] == "phi":
        return t[1]
    if t[0] in ("elem", "opq"):
        return t[1]
    return None


def show(t) -> str:
    if not isinstance(t, tuple) or not t:
        return repr(t)
    k = t[0]
    if k == "param":
        return t[1]
    if k == "const":
        return repr(t[1])
    if k == "phi":
        return f"{t[2]}@{t[1]}"
    if k == "elem":
        return f"elem@{t[1]}"
    if k == "opq":
        return f"?{t[1]}.{t[2]}"
    if k == "global":
        return t[1].rsplit(".", 1)[-1]
    if k == "call":
        return f"{t[1].rsplit('.', 1)[-1]}({', '.join(show(x) for x in t[2])})"
    if k in ("tuple", "list"):
        b = "()" if k == "tuple" else "[]"
        return b[0] + ", ".join(show(x) for x in t[1]) + b[1]
    if k == "item":
        return f"{show(t[1])}[{t[2]}]"
    if k == "attr":
        return f"{show(t[1])}.{t[2]}"
    if k == "cmp":
        return f"({show(t[2])} {t[1]} {show(t[3])})"
    if k == "not":
        return f"not {show(t[1])}"
    if k == "bin":
        return f"({show(t[2])} {t[1]} {show(t[3])})"
    if k == "max":
        return f"max({show(t[1])})"
    if k == "cr":
        return f"contrast({show(t[1])}, {show(t[2])})"
    if k == "de":
        return f"dE({show(t[1])}, {show(t[2])})"
    if k == "unbound":
        return f"<unbound {t[1]}>"
    # atoms
    if k in ("ge", "gt", "eq", "ne"):
        return f"{show(t[1])} {({'ge': '>=', 'gt': '>', 'eq': '==', 'ne': '!='})[k]} {show(t[2])}"
    if k == "boolean":
        return f"bool({show(t[1])})"
    if k == "samecolour":
        return f"{show(t[1])} is the colour {show(t[2])}"
    if k == "and":
        return " and ".join(show(x) for x in t[1:])
    if k in ("truthy", "falsy", "isnone", "notnone", "valid8"):
        return f"{k}({show(t[1])})"
    if k == "within":
        return f"within({show(t[1])} of {show(t[2])}, {show(t[3])})"
    if k == "elem_of":
        return f"{show(t[1])} in {show(t[2])}"
    if k == "chainstep":
        return f"step({show(t[1])} <- {show(t[2])} on {show(t[3])})"
    if k == "chain":
        return f"chain({show(t[1])} from {show(t[2])} on {show(t[3])})"
    if k == "imp":
        return f"[{show(t[1])} => {show(t[2])}]"
    return str(t)


def neg(a):
    k = a[0]
    if k == "ge":
        return ("gt", a[2], a[1])
    if k == "gt":
        return ("ge", a[2], a[1])
    if k == "eq":
        return ("ne", a[1], a[2])
    if k == "ne":
        return ("eq", a[1], a[2])
    if k == "truthy":
        return ("falsy", a[1])
    if k == "falsy":
        return ("truthy", a[1])
    if k == "isnone":
        return ("notnone", a[1])
    if k == "notnone":
        return ("isnone", a[1])
    return None


# --------------------------------------------------------------------------- prover
class Prover:
    """Decision procedure for the atom language over one fact set."""

    _cache: Dict[FrozenSet, "Prover"] = {}

    @classmethod
    def of(cls, facts: FrozenSet) -> "Prover":
        p = cls._cache.get(facts)
        if p is None:
            if len(cls._cache) > 4000:
                cls._cache.clear()
            p = cls(facts)
            cls._cache[facts] = p
        return p

    def __init__(self, facts):
        self.facts = set()
        for f in facts:
            self.facts.update(normalize_atom(f))
        self.parent: Dict[tuple, tuple] = {}
        self._closed = False
        self._inconsistent = None
        self._close()

    # ---- union-find with congruence by canonical rewriting
    def find(self, t):
        while t in self.parent:
            t = self.parent[t]
        return t

    def canon(self, t):
        if not isinstance(t, tuple):
            return t
        for _ in range(6):
            t2 = map_term(t, lambda s: (self.find(s) if s in self.parent else None))
            if t2 == t:
                break
            t = t2
        return t

    def union(self, a, b):
        a, b = self.canon(a), self.canon(b)
        if a == b:
            return False
        # prefer constants / params / simpler terms as representatives
        def rank(t):
            return (0 if t[0] == "const" else 1 if t[0] == "param" else 2, len(repr(t)))
        if rank(a) < rank(b):
            a, b = b, a
        self.parent[a] = b
        return True

    def _close(self):
        changed = True
        rounds = 0
        while changed and rounds < 12:
            rounds += 1
            changed = False
            # equalities
            for f in list(self.facts):
                if f[0] == "eq":
                    if self.union(f[1], f[2]):
                        changed = True
            # canonicalise all facts
            newf = set()
            for f in self.facts:
                newf.add(self.canon_atom(f))
            if newf != self.facts:
                self.facts = newf
                changed = True
            self._build_order()
            # modus ponens
            for f in list(self.facts):
                if f[0] == "imp":
                    if f[2] not in self.facts and self._holds(f[1]):
                        self.facts.add(f[2])
                        changed = True
            # tuple equality decomposes
            for f in list(self.facts):
                if f[0] == "eq" and f[1][0] == "tuple" and f[2][0] == "tuple" and len(f[1][1]) == len(f[2][1]):
                    for x, y in zip(f[1][1], f[2][1]):
                        if self.canon(x) != self.canon(y) and ("eq", x, y) not in self.facts:
                            self.facts.add(("eq", x, y))
                            changed = True
        self._closed = True

    def canon_atom(self, f):
        if f[0] == "imp":
            return ("imp", self.canon_atom(f[1]), self.canon_atom(f[2]))
        return (f[0],) + tuple(self.canon(x) if is_term(x) else x for x in f[1:])

    # ---- order graph
    def _build_order(self):
        self.succ: Dict[tuple, List[Tuple[tuple, bool]]] = {}
        consts = set()

        def add(a, b, strict):
            self.succ.setdefault(a, []).append((b, strict))
            self.succ.setdefault(b, [])
            for t in (a, b):
                if t[0] == "const" and isinstance(t[1], (int, float)) and not isinstance(t[1], bool):
                    consts.add(t)

        for f in self.facts:
            if f[0] == "ge":
                add(f[1], f[2], False)
            elif f[0] == "gt":
                add(f[1], f[2], True)
            elif f[0] == "elem_of":
                add(MAX(f[2]), f[1], False)
        # constants mentioned anywhere in facts (bounds of within etc.)
        for f in self.facts:
            for s in subterms(f):
                if is_term(s) and s[0] == "const" and isinstance(s[1], (int, float)) and not isinstance(s[1], bool):
                    consts.add(s)
        # an element of a list of numeric literals is at least the list's minimum
        for f in self.facts:
            if f[0] == "elem_of" and f[2][0] in ("list", "tuple") and f[2][1] and all(x[0] == "const" and isinstance(x[1], (int, float)) for x in f[2][1]):
                add(f[1], K(min(x[1] for x in f[2][1])), False)
        cs = sorted(consts, key=lambda c: c[1], reverse=True)
        for hi, lo in zip(cs, cs[1:]):
            add(hi, lo, hi[1] > lo[1])
        self.consts = cs
        # scaling a non-negative quantity down: a / c (c >= 1) and a * c (0 <= c <= 1) are <= a
        scaled = set()
        for f in self.facts:
            for s2 in subterms(f):
                if is_term(s2) and s2[0] == "bin" and s2[1] in ("Div", "Mult") and s2[3][0] == "const" and isinstance(s2[3][1], (int, float)):
                    scaled.add(s2)
        for t in scaled:
            c = t[3][1]
            if (t[1] == "Div" and c >= 1) or (t[1] == "Mult" and 0 <= c <= 1):
                if self._reach(t[2], K(0)) is not None:
                    add(t[2], t, False)

    def _reach(self, a, b) -> Optional[bool]:
        """None if a >= b is not derivable; else True iff a > b derivable (strict)."""
        a, b = self.canon(a), self.canon(b)
        if a == b:
            return False
        # constants not in the graph
        def const_val(t):
            return t[1] if t[0] == "const" and isinstance(t[1], (int, float)) and not isinstance(t[1], bool) else None
        best: Dict[tuple, bool] = {a: False}
        stack = [a]
        va, vb = const_val(a), const_val(b)
        if va is not None and vb is not None:
            return (va > vb) if va >= vb else None
        # connect a constant start/target to graph constants
        starts = [(a, False)]
        if va is not None:
            for c in self.consts:
                if va >= c[1]:
                    starts.append((c, va > c[1]))
        best = {}
        stack = []
        for s, st in starts:
            if s not in best or (st and not best[s]):
                best[s] = st
                stack.append(s)
        res = None
        while stack:
            x = stack.pop()
            sx = best[x]
            if x == b:
                res = sx if res is None else (res or sx)
            if vb is not None:
                vx = const_val(x)
                if vx is not None and vx >= vb:
                    st = sx or vx > vb
                    res = st if res is None else (res or st)
            for (y, strict) in self.succ.get(x, ()):
                sy = sx or strict
                if y not in best or (sy and not best[y]):
                    best[y] = sy
                    stack.append(y)
        return res

    # ---- entailment
    def inconsistent(self) -> bool:
        if self._inconsistent is None:
            self._inconsistent = self._compute_inconsistent()
        return self._inconsistent

    def _compute_inconsistent(self) -> bool:
        for f in self.facts:
            k = f[0]
            if k == "gt":
                if self._reach(f[2], f[1]) is not None:
                    return True
            elif k == "ge":
                if self._reach(f[2], f[1]) is True:
                    return True
            elif k == "ne":
                if self.canon(f[1]) == self.canon(f[2]):
                    return True
            elif k in ("truthy", "falsy", "isnone", "notnone"):
                n = neg(f)
                if self._holds_basic(n):
                    return True
        return False

    def entails(self, atom) -> bool:
        if self.inconsistent():
            return True
        for a in normalize_atom(atom):
            if self._holds(a):
                continue
            if self.refute(a):
                continue
            if self.case_split(a):
                continue
            return False
        return True

    def case_split(self, a) -> bool:
        """Two-valued case analysis on one boolean flag that guards implications among the facts: the goal holds if it
        holds (or the facts become inconsistent) both when the flag is true and when it is false."""
        if getattr(self, "_splitting", False):
            return False
        memo = self.__dict__.setdefault("_split_memo", {})
        if a in memo:
            return memo[a]
        memo[a] = False
        flags = []
        for f in self.facts:
            if f[0] == "imp" and f[1][0] in ("truthy", "falsy") and is_term(f[1][1]):
                t = self.canon(f[1][1])
                if t not in flags and self._is_boolish(t):
                    flags.append(t)
        for t in sorted(flags, key=repr)[:6]:
            ok = True
            for pol in ("truthy", "falsy"):
                hyp = Prover.of(frozenset(self.facts | {(pol, t)}))
                hyp._splitting = True
                if not (hyp.inconsistent() or hyp._holds(a)):
                    ok = False
                    break
            if ok:
                memo[a] = True
                break
        return memo[a]

    def refute(self, a) -> bool:
        """Proof by contradiction for the truth of a *boolean* term: if assuming the opposite is inconsistent, a holds
        (booleans are two-valued). Used for flags whose value is pinned down only through implications."""
        if a[0] not in ("truthy", "falsy") or not is_term(a[1]) or not self._is_boolish(self.canon(a[1])):
            return False
        key = ("refute", a)
        memo = self.__dict__.setdefault("_refute_memo", {})
        if key not in memo:
            memo[key] = False
            hyp = Prover.of(frozenset(self.facts | {neg(a)}))
            memo[key] = hyp.inconsistent()
        return memo[key]

    def _holds(self, atom) -> bool:
        k = atom[0]
        if k == "imp":
            g, c = atom[1], atom[2]
            if self.canon_atom(atom) in self.facts:
                return True
            if self._holds(c):
                return True
            ng = neg(g)
            if ng is not None and self._holds(ng):
                return True
            hyp = Prover.of(frozenset(self.facts | {g}))
            return hyp.entails(c)
        if k == "and":
            return all(self._holds(x) for x in atom[1:])
        return self._holds_basic(atom)

    def _holds_basic(self, atom) -> bool:
        atom = self.canon_atom(atom)
        if atom in self.facts:
            return True
        k = atom[0]
        if k == "ge":
            return self._reach(atom[1], atom[2]) is not None
        if k == "gt":
            return self._reach(atom[1], atom[2]) is True
        if k == "eq":
            a, b = atom[1], atom[2]
            if a == b:
                return True
            if a[0] == "tuple" and b[0] == "tuple" and len(a[1]) == len(b[1]):
                return all(self._holds_basic(("eq", x, y)) for x, y in zip(a[1], b[1]))
            # boolean const vs term
            for x, y in ((a, b), (b, a)):
                if x == K_TRUE and self._holds_basic(("truthy", y)) and self._is_boolish(y):
                    return True
                if x == K_FALSE and self._holds_basic(("falsy", y)) and self._is_boolish(y):
                    return True
            return False
        if k == "ne":
            a, b = atom[1], atom[2]
            if a[0] == "const" and b[0] == "const":
                return a[1] != b[1]
            r1, r2 = self._reach(a, b), self._reach(b, a)
            return r1 is True or r2 is True
        if k in ("truthy", "falsy", "isnone", "notnone"):
            return self._truth(k, atom[1])
        if k == "within":
            v, src, bound = atom[1], atom[2], atom[3]
            if v == src:
                return True
            for f in self.facts:
                if f[0] == "within" and f[1] == v and f[2] == src:
                    if self._reach(bound, f[3]) is not None:
                        return True
                # dE explicit: ge(bound', dE(src, v))
            de = DE(src, v)
            if self._reach(bound, de) is not None:
                return True
            return False
        if k == "valid8":
            return False
        if k == "chain":
            return self._chain(atom[1], atom[2], atom[3], set())
        if k == "elem_of":
            S = atom[2]
            return S[0] in ("list", "tuple") and atom[1] in S[1]
        if k == "boolean":
            return self._is_boolish(atom[1])
        if k == "samecolour":
            return atom[1] == atom[2] or ("samecolour", atom[2], atom[1]) in self.facts
        return False

    def _is_boolish(self, t) -> bool:
        return t[0] in ("cmp", "not") or (t[0] == "const" and isinstance(t[1], bool)) or ("boolean", t) in self.facts

    def _truth(self, k, t) -> bool:
        if t[0] == "const":
            v = t[1]
            return {"truthy": bool(v), "falsy": not bool(v), "isnone": v is None, "notnone": v is not None}[k]
        if t[0] in ("tuple", "list"):
            return {"truthy": len(t[1]) > 0, "falsy": len(t[1]) == 0, "isnone": False, "notnone": True}[k]
        if t[0] == "cmp":
            if k == "notnone":
                return True
            if k == "isnone":
                return False
            a = cmp_atom(t, k == "truthy")
            return a is not None and self._holds_basic(a)
        if t[0] == "not":
            if k in ("truthy", "falsy"):
                return self._truth("falsy" if k == "truthy" else "truthy", t[1])
            return k == "notnone"
        if t[0] in ("cr", "de"):
            return k in ("truthy", "notnone")   # ratios >= 1 > 0; distances: notnone
        F = self.facts
        if k == "truthy":
            return ("truthy", t) in F or ("valid8", t) in F
        if k == "notnone":
            return ("notnone", t) in F or ("truthy", t) in F or ("valid8", t) in F
        if k == "falsy":
            return ("falsy", t) in F or ("isnone", t) in F
        if k == "isnone":
            if ("isnone", t) in F:
                return True
            # falsy and (notnone => truthy-ish) : falsy + [notnone => valid8]
            if ("falsy", t) in F and (("imp", ("notnone", t), ("valid8", t)) in F or ("imp", ("notnone", t), ("truthy", t)) in F):
                return True
            return False
        return False

    def _chain(self, v, origin, bg, seen) -> bool:
        v = self.canon(v)
        if v == self.canon(origin):
            return True
        if ("chain", v, self.canon(origin), self.canon(bg)) in self.facts:
            return True
        if v in seen:
            return False
        seen.add(v)
        for f in self.facts:
            if f[0] == "chainstep" and f[1] == v and f[3] == self.canon(bg):
                if self._chain(f[2], origin, bg, seen):
                    return True
        return False


def normalize_atom(f) -> List[tuple]:
    """truthy(cmp) -> order atom, truthy(not x) -> falsy(x), and(...) -> conjuncts."""
    k = f[0]
    if k == "and":
        out = []
        for x in f[1:]:
            out += normalize_atom(x)
        return out
    if k in ("truthy", "falsy") and is_term(f[1]):
        t = f[1]
        if t[0] == "not":
            return normalize_atom(("falsy" if k == "truthy" else "truthy", t[1]))
        if t[0] == "cmp":
            a = cmp_atom(t, k == "truthy")
            return normalize_atom(a) if a is not None else [f]
    if k == "imp":
        g = normalize_atom(f[1])
        c = normalize_atom(f[2])
        if len(g) == 1:
            return [("imp", g[0], x) for x in c]
        return [f]
    if k == "samecolour":
        a, b = norm_colour(f[1]), norm_colour(f[2])
        if repr(a) > repr(b):
            a, b = b, a
        return [("samecolour", a, b)]
    if k == "within":
        return [("within", norm_colour(f[1]), norm_colour(f[2]), f[3])]
    if k in ("chain", "chainstep"):
        return [(k, norm_colour(f[1]), norm_colour(f[2]), norm_colour(f[3]))]
    return [f]


def trivial(c) -> bool:
    k = c[0]
    if k in ("eq", "ge", "samecolour") and c[1] == c[2]:
        return True
    if k == "imp":
        return trivial(c[2]) or c[1] == c[2]
    if k == "chain" and c[1] == c[2]:
        return True
    return False


def cmp_atom(t, truth: bool):
    op, a, b = t[1], t[2], t[3]
    if op == ">=":
        return ("ge", a, b) if truth else ("gt", b, a)
    if op == ">":
        return ("gt", a, b) if truth else ("ge", b, a)
    if op == "<=":
        return ("ge", b, a) if truth else ("gt", a, b)
    if op == "<":
        return ("gt", b, a) if truth else ("ge", a, b)
    if op == "==":
        return ("eq", a, b) if truth else ("ne", a, b)
    if op == "!=":
        return ("ne", a, b) if truth else ("eq", a, b)
    if op == "is" and b == K_NONE:
        return ("isnone", a) if truth else ("notnone", a)
    if op == "is not" and b == K_NONE:
        return ("notnone", a) if truth else ("isnone", a)
    if op == "is":
        return ("eq", a, b) if truth else None
    return None


# --------------------------------------------------------------------------- state
class State:
    __slots__ = ("env", "facts", "_h")

    def __init__(self, env: Dict[str, tuple], facts: FrozenSet):
        self.env = env
        self.facts = facts
        self._h = None

    def __eq__(self, other):
        return isinstance(other, State) and self.env == other.env and self.facts == other.facts

    def __ne__(self, other):
        return not self.__eq__(other)

    def with_env(self, name, term) -> "State":
        e = dict(self.env)
        e[name] = term
        return State(e, self.facts)

    def with_facts(self, new) -> "State":
        new = [f for f in new if f is not None]
        if not new:
            return self
        return State(self.env, self.facts | frozenset(new))

    def prover(self) -> Prover:
        return Prover.of(self.facts)


class Analysis:
    """GF dataflow for one function under one contract case."""

    def __init__(self, project: Project, fi: FuncInfo, contracts, assumptions=(), param_terms: Optional[Dict[str, tuple]] = None, chain_goal=None):
        self.project = project
        self.fi = fi
        self.scope = Scope(project, fi)
        self.cfg = build_cfg(fi.node)
        self.contracts = contracts
        self.chain_goal = chain_goal     # (origin term, bg term) for materialising chain facts at joins
        self.body_of: Dict[int, Set[int]] = {}
        for lp in self.cfg.loops:
            for h in lp["heads"]:
                self.body_of[h] = set(lp["body"])
        self.bind_iter: Dict[int, int] = {lp["bind"]: lp["iter"] for lp in self.cfg.loops if lp["kind"] == "for"}
        self.first_of: Dict[int, dict] = {lp["first"]: lp for lp in self.cfg.loops if lp["kind"] == "for"}
        self.next_of: Dict[int, dict] = {lp["next"]: lp for lp in self.cfg.loops if lp["kind"] == "for"}
        env = {p: (param_terms or {}).get(p, P(p)) for p in fi.params()}
        self.init = State(env, frozenset(assumptions))
        self.call_terms: Dict[int, List[tuple]] = {}   # node id -> call terms created there (for queries)
        self.IN: Dict[int, State] = {}
        self.notes: List[str] = []

    # ---------------------------------------------------------------- run
    def run(self):
        self.IN, self.OUT = solve(self.cfg, self.init, self.transfer, self.edge, self.join, max_steps=4000)
        return self

    # ---------------------------------------------------------------- evaluation
    def ev(self, e: ast.AST, st: State, node: Node, counter: List[int], new_facts: List) -> tuple:
        def opq():
            counter[0] += 1
            return ("opq", node.id, counter[0])

        if e is None:
            return K_NONE
        if isinstance(e, ast.Constant):
            return K(e.value)
        if isinstance(e, ast.Name):
            if e.id in st.env:
                return st.env[e.id]
            q = self.scope.resolve_name(e.id)
            if q:
                lit = self.module_literal(q)
                return lit if lit is not None else ("global", q)
            return ("unbound", e.id)
        if isinstance(e, ast.Tuple):
            return ("tuple", tuple(self.ev(x, st, node, counter, new_facts) for x in e.elts))
        if isinstance(e, ast.List):
            return ("list", tuple(self.ev(x, st, node, counter, new_facts) for x in e.elts))
        if isinstance(e, ast.Compare):
            if len(e.ops) == 1 and type(e.ops[0]) in CMP_OPS:
                return ("cmp", CMP_OPS[type(e.ops[0])], self.ev(e.left, st, node, counter, new_facts), self.ev(e.comparators[0], st, node, counter, new_facts))
            for c in [e.left] + list(e.comparators):
                self.ev(c, st, node, counter, new_facts)
            return opq()
        if isinstance(e, ast.UnaryOp):
            v = self.ev(e.operand, st, node, counter, new_facts)
            if isinstance(e.op, ast.Not):
                return ("not", v)
            if isinstance(e.op, ast.USub) and v[0] == "const" and isinstance(v[1], (int, float)):
                return K(-v[1])
            return ("bin", type(e.op).__name__, v, K_NONE)
        if isinstance(e, ast.BinOp):
            a = self.ev(e.left, st, node, counter, new_facts)
            b = self.ev(e.right, st, node, counter, new_facts)
            if a[0] == "const" and b[0] == "const" and isinstance(a[1], (int, float)) and isinstance(b[1], (int, float)):
                try:
                    v = {ast.Add: lambda x, y: x + y, ast.Sub: lambda x, y: x - y, ast.Mult: lambda x, y: x * y, ast.Div: lambda x, y: x / y}[type(e.op)](a[1], b[1])
                    return K(v)
                except Exception:
                    pass
            if isinstance(e.op, ast.Add) and a[0] == "list" and b[0] == "list":
                return ("list", a[1] + b[1])
            return ("bin", type(e.op).__name__, a, b)
        if isinstance(e, ast.Attribute):
            q = self.scope.resolve(e)
            base_is_local = isinstance(e.value, ast.Name) and e.value.id in st.env
            if q and not base_is_local:
                return ("global", q)
            return ("attr", self.ev(e.value, st, node, counter, new_facts), e.attr)
        if isinstance(e, ast.Subscript):
            base = self.ev(e.value, st, node, counter, new_facts)
            if isinstance(e.slice, ast.Constant) and isinstance(e.slice.value, int):
                return ITEM(base, e.slice.value)
            if isinstance(e.slice, ast.UnaryOp) and isinstance(e.slice.op, ast.USub) and isinstance(e.slice.operand, ast.Constant):
                return ITEM(base, -e.slice.operand.value)
            self.ev(e.slice, st, node, counter, new_facts) if not isinstance(e.slice, ast.Slice) else None
            return opq()
        if isinstance(e, ast.Call):
            return self.ev_call(e, st, node, counter, new_facts)
        if isinstance(e, ast.BoolOp):
            for v in e.values:
                self.ev(v, st, node, counter, new_facts)
            return opq()
        if isinstance(e, ast.IfExp):
            self.ev(e.test, st, node, counter, new_facts)
            a = self.ev(e.body, st, node, counter, new_facts)
            b = self.ev(e.orelse, st, node, counter, new_facts)
            return a if a == b else opq()
        if isinstance(e, (ast.JoinedStr, ast.Dict, ast.ListComp, ast.SetComp, ast.DictComp, ast.GeneratorExp, ast.Lambda, ast.Set, ast.Starred, ast.FormattedValue)):
            for sub in ast.iter_child_nodes(e):
                if isinstance(sub, ast.expr) and not isinstance(e, (ast.ListComp, ast.SetComp, ast.DictComp, ast.GeneratorExp, ast.Lambda)):
                    self.ev(sub, st, node, counter, new_facts)
            return opq()
        return opq()

    def ev_call(self, e: ast.Call, st: State, node: Node, counter, new_facts) -> tuple:
        q = self.scope.resolve_call(e)
        if q is None and isinstance(e.func, ast.Name):
            ft = st.env.get(e.func.id)
            if ft is not None and ft[0] == "global" and (ft[1] in self.project.funcs or ft[1] in self.contracts):
                q = ft[1]        # a local variable bound to a package function (e.g. `for search in (binary_search, descent):`)
        args = [self.ev(a.value if isinstance(a, ast.Starred) else a, st, node, counter, new_facts) for a in e.args]
        kwargs = {k.arg: self.ev(k.value, st, node, counter, new_facts) for k in e.keywords}

        def opq():
            counter[0] += 1
            return ("opq", node.id, counter[0])

        if q is None:
            # method call on a local object: mutators make the receiver's term unknown
            return opq()
        target = q
        fi = self.project.funcs.get(q) or self.project.funcs.get(q + ".__init__")
        bound: Optional[List[tuple]] = None
        if fi is not None:
            try:
                b = bind_args(fi, e, skip_self=bool(fi.cls))
                params = [p for p in fi.params() if not (fi.cls and p == "self")]
                names = {id(a): t for a, t in zip(e.args, args)}
                names.update({id(k.value): kwargs[k.arg] for k in e.keywords})
                bound = []
                for p in params:
                    if p in b:
                        bound.append(names[id(b[p])])
                    else:
                        d = fi.defaults().get(p)
                        bound.append(K(d.value) if isinstance(d, ast.Constant) else ("default", q, p))
                if fi.cls and isinstance(e.func, ast.Attribute) and not q.endswith("__init__") and q in self.project.funcs and q != COLOR_CLS:
                    # method call: receiver first
                    bound = [self.ev(e.func.value, st, node, counter, new_facts)] + bound
            except ValueError:
                bound = None
        if q == CR_FN and bound and len(bound) >= 2:
            return CR(bound[0], bound[1])
        if q == DE_FN and bound and len(bound) >= 2:
            return DE(bound[0], bound[1])
        if q in self.contracts and bound is not None:
            t = ("call", q, tuple(bound))
            c = self.contracts[q]
            facts = c.instantiate(t, bound, st, self)
            new_facts.extend(facts)
            self.call_terms.setdefault(node.id, []).append(t)
            return t
        if q in PURE or q in WRAPPERS or (fi is not None and q.startswith("cm_colors.core.") and bound is not None and (q == COLOR_CLS or self.is_pure_repo(q))):
            t = ("call", q, tuple(bound if bound is not None else args))
            if q == "cm_colors.core.conversions.oklch_to_rgb_safe":
                new_facts.append(("valid8", t))   # justified by C10 (every return validated or clamped)
            return t
        if q in ("builtins.list", "builtins.tuple") and len(args) == 1 and args[0][0] in ("list", "tuple") and not kwargs:
            return ("list", args[0][1])
        if q.startswith("builtins.") and q in ("builtins.int", "builtins.bool", "builtins.list", "builtins.sorted", "builtins.enumerate", "builtins.isinstance", "builtins.all", "builtins.any"):
            return ("call", q, tuple(args))
        return opq()

    def module_literal(self, q: str):
        """A module-level list/tuple of numeric literals that no function mutates is a constant of the program."""
        cache = self.__dict__.setdefault("_modlit", {})
        if q in cache:
            return cache[q]
        cache[q] = None
        mod, _, nm = q.rpartition(".")
        m = self.project.modules.get(mod)
        v = m.top_assigns.get(nm) if m else None
        if isinstance(v, (ast.List, ast.Tuple)) and v.elts and all(isinstance(x, ast.Constant) and isinstance(x.value, (int, float)) for x in v.elts):
            from .effects import Effects
            eff = self.project.__dict__.setdefault("_effects", None) or Effects(self.project)
            self.project._effects = eff
            mutated = any(d == q for sm in eff.sum.values() for d, _ in sm.module_writes)
            if not mutated:
                cache[q] = ("list", tuple(K(x.value) for x in v.elts))
        return cache[q]

    def is_pure_repo(self, q: str) -> bool:
        return q.startswith(("cm_colors.core.conversions.", "cm_colors.core.contrast.", "cm_colors.core.color_metrics.", "cm_colors.core.color_parser."))

    # ---------------------------------------------------------------- transfer
    def transfer(self, node: Node, st: State) -> State:
        a = node.ast
        counter = [0]
        nf: List = []
        k = node.kind
        if k == "stmt":
            if isinstance(a, ast.Assign):
                val = self.ev(a.value, st, node, counter, nf)
                for t in a.targets:
                    st = self.assign(t, val, st, node, counter)
                return st.with_facts(nf)
            if isinstance(a, ast.AnnAssign) and a.value is not None:
                val = self.ev(a.value, st, node, counter, nf)
                return self.assign(a.target, val, st, node, counter).with_facts(nf)
            if isinstance(a, ast.AugAssign):
                cur = self.ev(ast.Name(id=a.target.id, ctx=ast.Load()), st, node, counter, nf) if isinstance(a.target, ast.Name) else None
                val = self.ev(a.value, st, node, counter, nf)
                if isinstance(a.target, ast.Name):
                    counter[0] += 1
                    res = ("bin", type(a.op).__name__, cur, val) if cur is not None else ("opq", node.id, counter[0])
                    if cur is not None and cur[0] == "list":
                        res = ("opq", node.id, counter[0])
                    return st.with_env(a.target.id, res).with_facts(nf)
                return self.mutated(a.target, st, node, counter).with_facts(nf)
            if isinstance(a, ast.Expr):
                self.ev(a.value, st, node, counter, nf)
                # in-place mutation of a local through a method call makes its term unknown
                v = a.value
                if isinstance(v, ast.Call) and isinstance(v.func, ast.Attribute):
                    from .effects import MUTATORS
                    if v.func.attr in MUTATORS:
                        st = self.mutated(v.func.value, st, node, counter)
                return st.with_facts(nf)
            if isinstance(a, (ast.Import, ast.ImportFrom)):
                e = dict(st.env)
                for al in a.names:
                    e.pop((al.asname or al.name).split(".")[0], None)
                return State(e, st.facts)
            if isinstance(a, ast.Delete):
                e = dict(st.env)
                for t in a.targets:
                    if isinstance(t, ast.Name):
                        e.pop(t.id, None)
                return State(e, st.facts)
            return st
        if k == "funcdef":
            counter[0] += 1
            return st.with_env(a.name, ("opq", node.id, counter[0]))
        if k == "for_iter":
            it = self.ev(a.iter, st, node, counter, nf)
            return st.with_env(f"$iter{node.id}", it).with_facts(nf)
        if k == "bind":
            it = st.env.get(f"$iter{self.bind_iter[node.id]}")
            el = ("elem", node.id)
            st2 = self.assign(a.target, el, st, node, counter)
            if it is not None:
                nf.append(("elem_of", el, it))
                if it[0] in ("list", "tuple") and it[1] and all(x[0] == "const" for x in it[1]):
                    pass
            return st2.with_facts(nf)
        if k == "with":
            for item in a.items:
                v = self.ev(item.context_expr, st, node, counter, nf)
                if item.optional_vars is not None:
                    counter[0] += 1
                    st = self.assign(item.optional_vars, ("opq", node.id, counter[0]), st, node, counter)
            return st.with_facts(nf)
        if k == "except":
            if a.name:
                counter[0] += 1
                return st.with_env(a.name, ("opq", node.id, counter[0]))
            return st
        if k == "cond":
            # evaluation may create contract facts (calls inside conditions)
            self.ev(a, st, node, counter, nf)
            return st.with_facts(nf)
        if k == "return":
            self.ev(a.value, st, node, counter, nf)
            return st.with_facts(nf)
        return st

    def mutated(self, target: ast.AST, st: State, node: Node, counter) -> State:
        r = target
        while isinstance(r, (ast.Attribute, ast.Subscript)):
            r = r.value
        if isinstance(r, ast.Name) and r.id in st.env:
            counter[0] += 1
            return st.with_env(r.id, ("opq", node.id, 100 + counter[0]))
        return st

    def assign(self, target: ast.AST, val: tuple, st: State, node: Node, counter) -> State:
        if isinstance(target, ast.Name):
            return st.with_env(target.id, val)
        if isinstance(target, (ast.Tuple, ast.List)):
            for i, t in enumerate(target.elts):
                st = self.assign(t, ITEM(val, i), st, node, counter)
            return st
        if isinstance(target, (ast.Subscript, ast.Attribute)):
            return self.mutated(target, st, node, counter)
        return st

    # ---------------------------------------------------------------- edges
    def edge(self, node: Node, label, st: State) -> Optional[State]:
        if label == "exc":
            return st
        if node.kind == "cond" and label in ("T", "F"):
            counter = [0]
            nf: List = []
            t = self.ev(node.ast, st, node, counter, nf)
            return self.assume(st.with_facts(nf), t, label == "T")
        if node.kind == "for_first" and label == "exhausted":
            lp = self.first_of[node.id]
            it = st.env.get(f"$iter{lp['iter']}")
            if it is not None and self.nonempty(it):
                return None
            return st
        return st

    @staticmethod
    def nonempty(it) -> bool:
        if it[0] in ("list", "tuple"):
            return len(it[1]) > 0
        if it[0] == "call" and it[1] == "builtins.range" and len(it[2]) == 1 and it[2][0][0] == "const" and isinstance(it[2][0][1], int):
            return it[2][0][1] > 0
        return False

    def assume(self, st: State, t: tuple, truth: bool) -> Optional[State]:
        atom = None
        if t[0] == "not":
            return self.assume(st, t[1], not truth)
        if t[0] == "const":
            return st if bool(t[1]) == truth else None
        if t[0] == "cmp":
            atom = cmp_atom(t, truth)
            if atom is None:
                return st
        else:
            atom = ("truthy", t) if truth else ("falsy", t)
        pr = st.prover()
        n = neg(atom)
        if n is not None and pr.entails(n):
            return None
        st2 = st.with_facts([atom])
        if st2.prover().inconsistent():
            return None
        return st2

    # ---------------------------------------------------------------- join
    def stale_pred(self, node: Node, pid: int):
        """Site symbols that are stale when control arrives at ``node`` from predecessor pid."""
        body = self.body_of.get(node.id)
        if body is not None and pid in body:
            return lambda t: (site_of(t) in body) if t[0] in ("phi", "elem", "opq") else False
        return None

    def join(self, node: Node, incoming) -> State:
        if node.kind == "except_dispatch":
            return self.cheap_join(node, incoming)
        stale_fns = [self.stale_pred(node, pid) for pid, _, _ in incoming]
        states = [st for _, _, st in incoming]
        if len(states) == 1 and stale_fns[0] is None:
            return states[0]
        J = node.id
        names = set()
        for st in states:
            names |= set(st.env)
        new_env: Dict[str, tuple] = {}
        phi_vars: List[str] = []
        for v in sorted(names):
            vals = [st.env.get(v, ("unbound", v)) for st in states]
            same = all(x == vals[0] for x in vals)
            stale = any(fn is not None and mentions(x, fn) for x, fn in zip(vals, stale_fns))
            if same and not stale:
                new_env[v] = vals[0]
            else:
                new_env[v] = ("phi", J, v)
                phi_vars.append(v)
        # per-predecessor renaming: pred term -> phi terms
        sigmas: List[Dict[tuple, List[tuple]]] = []
        backs: List[Dict[tuple, tuple]] = []
        for st in states:
            sg: Dict[tuple, List[tuple]] = {}
            bk: Dict[tuple, tuple] = {}
            for v in phi_vars:
                t = st.env.get(v, ("unbound", v))
                ph = ("phi", J, v)
                bk[ph] = t
                if t[0] in ("const", "unbound"):
                    continue
                sg.setdefault(t, []).append(ph)
                nt = norm_colour(t)
                if nt != t and nt[0] != "const":
                    sg.setdefault(nt, []).append(ph)
                if t[0] == "tuple":
                    for k, it in enumerate(t[1]):
                        for key in {it, norm_colour(it)}:
                            if key[0] != "const":
                                sg.setdefault(key, []).append(("item", ph, k))
                elif t[0] == "call" and t[1] in self.contracts and self.contracts[t[1]].arity:
                    for k in range(self.contracts[t[1]].arity):
                        sg.setdefault(("item", t, k), []).append(("item", ph, k))
                elif t[0] == "phi":
                    # components of an earlier tuple-valued phi
                    for k in range(2):
                        sg.setdefault(("item", t, k), []).append(("item", ph, k))
            sigmas.append(sg)
            backs.append(bk)
        # candidates
        cands: Set[tuple] = set()
        per_pred: List[Set[tuple]] = []
        sats: List[Set[tuple]] = []
        for st, sg, fn0, bk in zip(states, sigmas, stale_fns, backs):
            mine: Set[tuple] = set()
            per_pred.append(mine)
            sat = self.saturate(st)
            sats.append(sat)
            fn = None
            if fn0 is not None:
                # the phi symbols of J itself are being (re)defined right now: what the renaming produces is
                # fresh; what the predecessor still says about an *older* generation of them is dropped first
                def old_gen(s2, st=st):
                    return s2[0] == "phi" and s2[1] == J and st.env.get(s2[2]) != s2
                sat = {f for f in sat if not mentions(f, old_gen)}

                def fn(s2, fn0=fn0):
                    return fn0(s2) and not (s2[0] == "phi" and s2[1] == J)
            for f in sat:
                for f2 in self.rename(f, sg, fn):
                    cands.add(f2)
                    mine.add(f2)
            for v in phi_vars:
                t = st.env.get(v, ("unbound", v))
                ph = ("phi", J, v)
                if t == K_NONE:
                    cands.add(("isnone", ph))
                elif t[0] == "const" and isinstance(t[1], bool):
                    cands.add(("truthy", ph) if t[1] else ("falsy", ph))
                    cands.add(("boolean", ph))
                elif t[0] in ("cmp", "not"):
                    cands.add(("boolean", ph))
                if t[0] not in ("unbound",) and not (fn0 is not None and mentions(t, fn0)) and t[0] != "const":
                    cands.add(("eq", ph, t))
                # definitional candidates: express this variable's term through other phi variables
                if t[0] in ("cr", "de", "call", "item", "cmp", "bin", "tuple") and sg:
                    for t2 in self.rename_term(t, {k: v2 for k, v2 in sg.items() if k != t}, fn):
                        if t2 != t and not (fn is not None and mentions(t2, fn)):
                            cands.add(("eq", t2, ph))
        # guarded weakenings
        base = list(cands)
        bool_phis = []
        for v in phi_vars:
            ph = ("phi", J, v)
            vals = [st.env.get(v, ("unbound", v)) for st in states]
            if all((x[0] == "const" and isinstance(x[1], bool)) or x[0] in ("cmp", "not", "phi", "item") for x in vals) and any(x[0] == "const" for x in vals):
                bool_phis.append(ph)
        for c in base:
            if c[0] in ("imp", "boolean"):
                continue
            for ph in {s for s in subterms(c) if is_term(s) and s[0] == "phi" and s[1] == J}:
                if ph not in bool_phis:
                    cands.add(("imp", ("notnone", ph), c))
            for b in bool_phis:
                if not mentions(c, lambda s: s == b):
                    cands.add(("imp", ("truthy", b), c))
                    cands.add(("imp", ("falsy", b), c))
        # path conditions: an atom g known on one predecessor whose negation every other predecessor entails
        # (the two arms of a branch) guards that predecessor's own facts: g => c
        if 2 <= len(states) <= 4:
            provers0 = [st.prover() for st in states]
            for i, (st, mine) in enumerate(zip(states, per_pred)):
                gs = []
                for g in st.facts:
                    if g[0] not in ("truthy", "falsy", "ge", "gt", "eq", "ne", "isnone", "notnone"):
                        continue
                    if stale_fns[i] is not None and mentions(g, stale_fns[i]):
                        continue
                    ng = neg(g)
                    if ng is None or any(is_term(x) and x[0] == "phi" and x[1] == J for x in subterms(g)):
                        continue
                    if all(provers0[j].entails(ng) for j in range(len(states)) if j != i):
                        gs.append(g)
                for g in gs[:4]:
                    for c in list(mine)[:300]:
                        if c[0] in ("imp", "boolean") or trivial(c) or c == g:
                            continue
                        cands.add(("imp", g, c))
        # prune: trivial candidates, and candidates about site symbols no variable holds any more
        live = set()
        for t in new_env.values():
            if is_term(t):
                for s2 in subterms(t):
                    if is_term(s2) and s2[0] in ("phi", "elem", "opq"):
                        live.add(s2)
        for st in states:
            pass

        def dead(c):
            return mentions(c, lambda s2: s2[0] in ("phi", "elem", "opq") and s2 not in live)

        cands = {c for c in cands if not trivial(c) and not dead(c)}
        if len(cands) > 6000:
            raise AnalysisError(f"GF: candidate explosion at {node!r} in {self.fi.short}")
        # keep what every predecessor entails
        kept = set()
        provers = [st.prover() for st in states]
        for c in cands:
            ok = True
            for st, pr, bk in zip(states, provers, backs):
                cb = self.back_subst(c, bk)
                if cb is None or not pr.entails(cb):
                    ok = False
                    break
            if ok:
                kept.add(c)
        return State(new_env, frozenset(kept))

    def cheap_join(self, node: Node, incoming) -> State:
        states = [st for _, _, st in incoming]
        names = set()
        for st in states:
            names |= set(st.env)
        env = {}
        for v in names:
            vals = [st.env.get(v, ("unbound", v)) for st in states]
            env[v] = vals[0] if all(x == vals[0] for x in vals) else ("phi", node.id, v)
        facts = frozenset.intersection(*[st.facts for st in states])
        return State(env, facts)

    def back_subst(self, atom, bk: Dict[tuple, tuple]):
        def f(s):
            if is_term(s) and s in bk:
                return bk[s]
            return None
        try:
            if atom[0] == "imp":
                return ("imp", self.back_subst(atom[1], bk), self.back_subst(atom[2], bk))
            return (atom[0],) + tuple(map_term(x, f) if is_term(x) else x for x in atom[1:])
        except RecursionError:
            return None

    def rename_term(self, t, sg, stale_fn, cap=6) -> List[tuple]:
        """All variants of t with subterms replaced by phi images (identity allowed unless stale)."""
        if not is_term(t):
            return [t]
        out = []
        if t in sg:
            out.extend(sg[t])
        # structural recursion
        kids = []
        for x in t[1:]:
            if is_term(x):
                kids.append(self.rename_term(x, sg, stale_fn, cap))
            elif isinstance(x, tuple):
                subs = [self.rename_term(y, sg, stale_fn, cap) if is_term(y) else [y] for y in x]
                combos = list(itertools.islice(itertools.product(*subs), cap))
                kids.append([tuple(c) for c in combos])
            else:
                kids.append([x])
        for combo in itertools.islice(itertools.product(*kids), cap):
            cand = rebuild((t[0],) + tuple(combo))
            out.append(cand)
        # drop stale variants
        res = []
        for o in out:
            if stale_fn is not None and mentions(o, stale_fn):
                continue
            if o not in res:
                res.append(o)
        return res[:cap]

    def rename(self, atom, sg, stale_fn) -> List[tuple]:
        if atom[0] == "imp":
            gs = self.rename(atom[1], sg, stale_fn)
            cs = self.rename(atom[2], sg, stale_fn)
            return [("imp", g, c) for g in gs[:3] for c in cs[:3]]
        parts = []
        for x in atom[1:]:
            parts.append(self.rename_term(x, sg, stale_fn) if is_term(x) else [x])
        out = []
        for combo in itertools.islice(itertools.product(*parts), 12):
            out.append((atom[0],) + tuple(combo))
        return out

    def saturate(self, st: State) -> Set[tuple]:
        """Facts plus cheap consequences, used only to propose candidates at joins."""
        pr = st.prover()
        out = set(pr.facts)
        # derived within(.., max(S)) from elem_of
        for f in list(out):
            if f[0] == "within":
                for g in pr.facts:
                    if g[0] == "elem_of" and g[1] == f[3]:
                        out.add(("within", f[1], f[2], MAX(g[2])))
            if f[0] == "imp" and f[2][0] == "within":
                w = f[2]
                for g in pr.facts:
                    if g[0] == "elem_of" and g[1] == w[3]:
                        out.add(("imp", f[1], ("within", w[1], w[2], MAX(g[2]))))
        # order closure between anchored terms
        anchored = set()
        for v, t in st.env.items():
            if is_term(t):
                anchored.add(pr.canon(t))
                if t[0] == "tuple":
                    anchored.update(pr.canon(x) for x in t[1])
        for f in pr.facts:
            if f[0] in ("ge", "gt"):
                for x in (f[1], f[2]):
                    if x[0] in ("const", "cr") or not mentions(x, lambda s: s[0] in ("phi", "elem", "opq")):
                        anchored.add(x)
        nodes = [t for t in pr.succ if True]
        for a in nodes:
            for b in nodes:
                if a == b or a[0] == "const" and b[0] == "const":
                    continue
                if a not in anchored and b not in anchored:
                    continue
                r = pr._reach(a, b)
                if r is True:
                    out.add(("gt", a, b))
                    out.add(("ge", a, b))
                elif r is False:
                    out.add(("ge", a, b))
        # flags that guard implications: is their value forced?
        flags = set()
        for f in pr.facts:
            if f[0] == "imp" and f[1][0] in ("truthy", "falsy") and is_term(f[1][1]):
                flags.add(f[1][1])
        for b in flags:
            for k in ("truthy", "falsy"):
                a = (k, b)
                if a not in out and pr.entails(a):
                    out.add(a)
        # chain facts for values held by variables
        if self.chain_goal is not None:
            o, bg = self.chain_goal
            for v, t in st.env.items():
                if is_term(t) and t[0] not in ("const", "unbound") and not v.startswith("$"):
                    if pr._chain(norm_colour(t), o, bg, set()):
                        out.add(("chain", pr.canon(norm_colour(t)), pr.canon(o), pr.canon(bg)))
        return out
