"""Reaching definitions (may analysis) and loaded-name helpers over sa.cfg.CFG."""
from __future__ import annotations

import ast
from typing import Dict, FrozenSet, Set, Tuple

from .cfg import CFG, Node, node_exprs
from .dataflow import solve
from .guards import node_stores


def loads(node: Node) -> Set[str]:
    out = set()
    for e in node_exprs(node):
        for n in ast.walk(e):
            if isinstance(n, ast.Name) and isinstance(n.ctx, ast.Load):
                out.add(n.id)
            elif isinstance(n, ast.AugAssign) and isinstance(n.target, ast.Name):
                out.add(n.target.id)
    return out


def reaching_defs(cfg: CFG, params) -> Dict[int, FrozenSet[Tuple[str, int]]]:
    init = frozenset((p, -1) for p in params)

    def transfer(node: Node, state):
        st = node_stores(node)
        if not st:
            return state
        # AugAssign both reads and writes; Delete kills
        return frozenset({d for d in state if d[0] not in st} | {(x, node.id) for x in st})

    def edge(node, label, state):
        return state

    def join(node, incoming):
        out = set()
        for _, _, st in incoming:
            out |= st
        return frozenset(out)

    IN, _ = solve(cfg, init, transfer, edge, join)
    return IN


def possibly_unbound(cfg: CFG, fn: ast.AST, params):
    """(node, name) uses of a local name that is not assigned on every path reaching the use."""
    from .resolve import assigned_names
    local = assigned_names(fn) | set(params)
    init = frozenset(params)

    def transfer(node: Node, state):
        st = node_stores(node)
        return frozenset(state | st) if st else state

    def join(node, incoming):
        it = iter(incoming)
        out = set(next(it)[2])
        for _, _, st in it:
            out &= st
        return frozenset(out)

    IN, _ = solve(cfg, init, transfer, lambda n, l, s: s, join)
    out = []

    def feasible_unassigned_path(target: Node, name: str) -> bool:
        """Is there a path from the entry to `target` that assigns `name` nowhere, taking into account flags that hold a
        boolean constant on the path (`found = False ... if found:` cannot take the true branch)?"""
        seen = set()
        stack = [(cfg.entry, frozenset())]
        while stack:
            nid, fl = stack.pop()
            if (nid, fl) in seen:
                continue
            seen.add((nid, fl))
            n = cfg.nodes[nid]
            if nid == target.id:
                return True
            st = node_stores(n)
            if name in st:
                continue
            a = n.ast
            if st:
                fl = frozenset((k, v) for (k, v) in fl if k not in st)
                if n.kind == "stmt" and isinstance(a, ast.Assign) and len(a.targets) == 1 and isinstance(a.targets[0], ast.Name) \
                        and isinstance(a.value, ast.Constant) and isinstance(a.value.value, bool):
                    fl = fl | {(a.targets[0].id, a.value.value)}
            known = dict(fl)
            for (d, lab) in cfg.succ[nid]:
                if n.kind == "cond" and isinstance(a, ast.Name) and a.id in known and lab in ("T", "F") and (lab == "T") != known[a.id]:
                    continue
                stack.append((d, fl))
        return False
    for node in cfg.nodes:
        if node.id not in IN:
            continue
        have = IN[node.id]
        for e in node_exprs(node):
            comp_bound = set()
            for sub in ast.walk(e):
                if isinstance(sub, ast.comprehension):
                    comp_bound |= {n.id for n in ast.walk(sub.target) if isinstance(n, ast.Name)}
                if isinstance(sub, ast.Lambda):
                    comp_bound |= {a.arg for a in sub.args.args}
            for n in ast.walk(e):
                if isinstance(n, ast.Name) and isinstance(n.ctx, ast.Load) and n.id in local and n.id not in have and n.id not in comp_bound:
                    if not feasible_unassigned_path(node, n.id):
                        continue        # the only unassigned paths contradict a boolean flag set on them
                    out.append((node, n.id))
    return out
