"""Contracts for the modular GF verification (DESIGN 2.2), written from the *properties*, not
from the code: each analysed function is verified against its contract assuming the contracts of
its callees. A contract is a list of clauses (assumptions over the parameters -> postconditions
over the parameters and the result); at a call site the postconditions of every clause whose
assumptions the caller's state entails are added as facts about the call term.
"""
from __future__ import annotations

import ast
from typing import Callable, Dict, List, Optional

from .gf import (CR, DE, ITEM, K, K_FALSE, K_NONE, K_TRUE, MAX, P, norm_colour, Analysis, State)
from .loader import AnalysisError, Project

OPT = "cm_colors.core.optimisation"
BSL = f"{OPT}.binary_search_lightness"
GD = f"{OPT}.gradient_descent_oklch"
GAC = f"{OPT}.generate_accessible_color"
STRICT = f"{OPT}._strategy_strict"
RECURSIVE = f"{OPT}._strategy_recursive"
RELAXED = f"{OPT}._strategy_relaxed"
CAF = f"{OPT}.check_and_fix_contrast"
MAKE = "cm_colors.core.colors.ColorPair.make_readable"

# the property's own table (WCAG 2): (very_readable/premium, large) -> required minimum
WCAG_MIN = {(False, False): 4.5, (False, True): 3.0, (True, False): 7.0, (True, True): 4.5}
STRICT_CAP = 5.0


def imp(g, c):
    return ("imp", g, c)


class Clause:
    def __init__(self, name: str, assumes: Callable, posts: Callable):
        self.name = name
        self.assumes = assumes
        self.posts = posts


class Contract:
    def __init__(self, q: str, params: List[str], arity: int, clauses: List[Clause], colour_params=()):
        self.q = q
        self.params = params
        self.arity = arity          # 2 if the function returns a (colour, flag) pair, else 0
        self.clauses = clauses
        self.colour_params = set(colour_params)

    def args(self, bound) -> Dict[str, tuple]:
        a = {}
        for p, t in zip(self.params, bound):
            a[p] = norm_colour(t) if p in self.colour_params else t
        for p in self.params[len(bound):]:
            a[p] = ("default", self.q, p)
        return a

    def instantiate(self, t, bound, st: State, an: Analysis):
        a = self.args(bound)
        pr = st.prover()
        out = []
        for cl in self.clauses:
            if all(pr.entails(x) for x in cl.assumes(a)):
                out += cl.posts(t, a)
        return out


def default_schedule_max(project: Project) -> float:
    """CT: the maximum of the schedule generate_accessible_color falls back to when none is given
    (the list literal assigned to its schedule parameter under the `is None` test)."""
    fi = project.func(GAC)
    params = fi.params()
    if len(params) < 6:
        raise AnalysisError("generate_accessible_color: schedule parameter vanished")
    seq = params[5]
    lists = []
    from .resolve import Scope
    sc = Scope(project, fi)

    def literal(v):
        """numeric list literal, directly or through a module-level constant (list(...)/tuple(...) copies allowed)"""
        if isinstance(v, ast.Call) and isinstance(v.func, ast.Name) and v.func.id in ("list", "tuple") and len(v.args) == 1:
            v = v.args[0]
        if isinstance(v, (ast.Name, ast.Attribute)):
            q = sc.resolve(v)
            if q:
                mod, _, nm = q.rpartition(".")
                mm = project.modules.get(mod)
                tv = mm.top_assigns.get(nm) if mm else None
                if isinstance(tv, (ast.List, ast.Tuple)):
                    # a module-level schedule object: if any function mutates it, its maximum is not a constant of the program
                    from .effects import Effects
                    eff = Effects(project)
                    for fq, sm in eff.sum.items():
                        for dotted, node in sm.module_writes:
                            if dotted == q:
                                project.schedule_mutation = (sm.fi, node, q)
                                return [float("inf")]
                    v = tv
        if isinstance(v, (ast.List, ast.Tuple)):
            vals = []
            for e in v.elts:
                if not (isinstance(e, ast.Constant) and isinstance(e.value, (int, float))):
                    raise AnalysisError("generate_accessible_color: default schedule is not a list of numeric literals")
                vals.append(float(e.value))
            return vals
        return None

    for n in ast.walk(fi.node):
        if isinstance(n, ast.Assign) and any(isinstance(t, ast.Name) and t.id == seq for t in n.targets):
            vals = literal(n.value)
            if vals is not None:
                lists.append(vals)
    d = fi.defaults().get(seq)
    if d is not None and not (isinstance(d, ast.Constant) and d.value is None):
        vals = literal(d)
        if vals is not None:
            lists.append(vals)
    if len(lists) != 1 or not lists[0]:
        raise AnalysisError(f"generate_accessible_color: expected exactly one default schedule literal, found {len(lists)}")
    return max(lists[0])


def build_contracts(project: Project) -> Dict[str, Contract]:
    dmax = default_schedule_max(project)

    def search_posts(r, a):
        return [imp(("notnone", r), ("within", r, a["text_rgb"], a["delta_e_threshold"])),
                imp(("notnone", r), ("valid8", r))]

    bsl = Contract(BSL, ["text_rgb", "bg_rgb", "delta_e_threshold", "target_contrast", "large_text"], 0,
                   [Clause("bounded", lambda a: [], search_posts)], colour_params=("text_rgb", "bg_rgb"))
    gd = Contract(GD, ["text_rgb", "bg_rgb", "delta_e_threshold", "target_contrast", "large_text", "max_iter"], 0,
                  [Clause("bounded", lambda a: [], search_posts)], colour_params=("text_rgb", "bg_rgb"))

    def gac_common(r, a):
        t, b = a["text_rgb"], a["bg_rgb"]
        return [("ge", CR(r, b), CR(t, b)), ("chainstep", r, t, b), ("notnone", r), ("truthy", r),
                imp(("valid8", t), ("valid8", r))]

    gac = Contract(GAC, ["text_rgb", "bg_rgb", "large", "target_contrast", "min_contrast", "delta_e_sequence"], 0, [
        Clause("common", lambda a: [], gac_common),
        Clause("default-schedule", lambda a: [("isnone", a["delta_e_sequence"])],
               lambda r, a: [("within", r, a["text_rgb"], K(dmax))]),
        Clause("given-schedule", lambda a: [("notnone", a["delta_e_sequence"])],
               lambda r, a: [("within", r, a["text_rgb"], MAX(a["delta_e_sequence"]))]),
        Clause("already-at-target", lambda a: [("notnone", a["target_contrast"])],
               lambda r, a: [imp(("ge", CR(a["text_rgb"], a["bg_rgb"]), a["target_contrast"]), ("eq", r, a["text_rgb"]))]),
    ], colour_params=("text_rgb", "bg_rgb"))

    def strat_posts(r, a):
        c, s = ITEM(r, 0), ITEM(r, 1)
        t, b, m = a["text_rgb"], a["bg_rgb"], a["min_contrast"]
        return [imp(("truthy", s), ("ge", CR(c, b), m)), imp(("falsy", s), ("gt", m, CR(c, b))), ("boolean", s),
                ("ge", CR(c, b), CR(t, b)), ("chain", c, t, b), imp(("valid8", t), ("valid8", c)), ("notnone", c)]

    sp = ["text_rgb", "bg_rgb", "large", "target_contrast", "min_contrast"]
    strict = Contract(STRICT, sp, 2, [Clause("verdict", lambda a: [], strat_posts),
                                     Clause("strict-cap", lambda a: [], lambda r, a: [("within", ITEM(r, 0), a["text_rgb"], K(STRICT_CAP))])],
                      colour_params=("text_rgb", "bg_rgb"))
    recursive = Contract(RECURSIVE, sp, 2, [Clause("verdict", lambda a: [], strat_posts)], colour_params=("text_rgb", "bg_rgb"))

    def rec_first(r, a):
        rec = ("call", RECURSIVE, (a["text_rgb"], a["bg_rgb"], a["large"], a["target_contrast"], a["min_contrast"]))
        return [imp(("truthy", ITEM(rec, 1)), ("eq", r, ("tuple", (ITEM(rec, 0), K_TRUE))))]

    relaxed = Contract(RELAXED, sp, 2, [Clause("verdict", lambda a: [], strat_posts), Clause("recursive-first", lambda a: [], rec_first)],
                       colour_params=("text_rgb", "bg_rgb"))

    def caf_clause(prem: bool, large: bool):
        mn = K(WCAG_MIN[(prem, large)])

        def assumes(a):
            return [("truthy" if prem else "falsy", a["premium"]), ("truthy" if large else "falsy", a["large"])]

        def posts(r, a):
            c, s = ITEM(r, 0), ITEM(r, 1)
            t, b = a["text"], a["bg"]
            return [imp(("truthy", s), ("ge", CR(c, b), mn)), imp(("falsy", s), ("gt", mn, CR(c, b))), ("boolean", s),
                    ("ge", CR(c, b), CR(t, b)),
                    imp(("ge", CR(t, b), mn), ("and", ("samecolour", c, t), ("truthy", s)))]
        return Clause(f"verdict[premium={prem},large={large}]", assumes, posts)

    caf = Contract(CAF, ["text", "bg", "large", "mode", "premium"], 2,
                   [caf_clause(p, l) for p in (False, True) for l in (False, True)] +
                   [Clause("strict-cap", lambda a: [("eq", a["mode"], K(0))],
                           lambda r, a: [("within", ITEM(r, 0), a["text"], K(STRICT_CAP))])],
                   colour_params=("text", "bg"))
    out = {BSL: bsl, GD: gd, GAC: gac, STRICT: strict, RECURSIVE: recursive, RELAXED: relaxed, CAF: caf}
    def template(q, params, keep=None):
        posts = strat_posts if keep is None else (lambda r, a: [x for i, x in enumerate(strat_posts(r, a)) if i in keep])
        return Contract(q, params, 2, [Clause("verdict", lambda a: [], posts)], colour_params=("text_rgb", "bg_rgb"))
    out["$strategy_template"] = template
    return out
