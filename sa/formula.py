"""FS: formula-shape audit.

``extract(project, fi)`` turns a loop-free numeric function into one symbolic expression per
result (temporaries inlined by def-use substitution, if/elif chains as ``ite`` nodes, constant
sub-expressions folded, associative/commutative operators flattened). ``compare(code, ref, policy)``
aligns that expression with the *reference formula* (written from the published definition, as
source text, in the checker) and reports mismatches:

  const      a literal differs from the definition (per-constant tolerance / equivalence class)
  operator   a different operator / function at an aligned position (cos vs sin, >= vs >, + vs -)
  binding    a different variable or argument at an aligned position (C_mean vs C_mean_prime)
  structure  an operation present on one side only around an otherwise matching operand (dropped % 360)
  shape      the expressions cannot be aligned at all

Verdict discipline (DESIGN 2.2): const/operator/binding/structure mismatches on an otherwise
recognised formula are definite violations naming the construct; a global ``shape`` mismatch means
the analysis cannot read the code (ANALYSIS-INCONCLUSIVE, exit 2) -- a refactor is not a violation.
"""
from __future__ import annotations

import ast
import itertools
import math
from typing import Callable, Dict, List, Optional, Tuple

from .loader import AnalysisError, FuncInfo, Project, norm_text
from .resolve import Scope


class Unsupported(Exception):
    pass


BINOPS = {ast.Add: "+", ast.Sub: "-", ast.Mult: "*", ast.Div: "/", ast.Pow: "**", ast.Mod: "%", ast.FloorDiv: "//"}
CMPOPS = {ast.GtE: ">=", ast.Gt: ">", ast.LtE: "<=", ast.Lt: "<", ast.Eq: "==", ast.NotEq: "!=", ast.Is: "is", ast.IsNot: "is not", ast.In: "in", ast.NotIn: "not in"}
MATH_CONSTS = {"math.pi": math.pi, "math.e": math.e, "math.tau": math.tau, "math.inf": math.inf}
FUNC_ALIASES = {"math.sqrt": "sqrt", "math.cos": "cos", "math.sin": "sin", "math.atan2": "atan2", "math.exp": "exp", "math.radians": "radians",
                "math.degrees": "degrees", "math.fabs": "abs", "builtins.abs": "abs", "builtins.max": "max", "builtins.min": "min",
                "builtins.round": "round", "builtins.int": "int", "builtins.float": "float", "math.atan": "atan", "math.hypot": "hypot",
                "math.log": "log", "math.floor": "floor", "math.ceil": "ceil", "builtins.str": "str", "builtins.len": "len", "math.cbrt": "cbrt",
                "builtins.tuple": "tuple", "builtins.isinstance": "isinstance", "builtins.all": "all", "builtins.any": "any", "builtins.bool": "bool"}
RAISE = ("raise",)
import string as _string
STD_CONSTS = {f"string.{n}": getattr(_string, n) for n in ("hexdigits", "digits", "ascii_lowercase", "ascii_uppercase", "ascii_letters", "octdigits", "whitespace")}


class _Term(ast.expr):
    """An already evaluated value spliced into synthetic statements (loop unrolling)."""
    _fields = ()

    def __init__(self, term):
        super().__init__()
        self.term = term


def module_value(project, q: str):
    """Value of a module-level name of the package whose defining expression is readable (constants, tuples,
    arithmetic on constants, compiled patterns); None when the name is not such a constant."""
    cache = project.__dict__.setdefault("_fs_module_values", {})
    if q in cache:
        return cache[q]
    cache[q] = None
    mod, _, nm = q.rpartition(".")
    m = project.modules.get(mod)
    if m is None or nm not in m.top_assigns:
        return None
    n_stores = sum(1 for n in ast.walk(m.tree) if isinstance(n, ast.Name) and n.id == nm and isinstance(n.ctx, (ast.Store, ast.Del)))
    n_global = sum(1 for n in ast.walk(m.tree) if isinstance(n, ast.Global) and nm in n.names)
    if n_stores != 1 or n_global:
        return None          # rebound somewhere: not a constant
    if isinstance(m.top_assigns[nm], (ast.Dict, ast.List, ast.Set, ast.ListComp, ast.DictComp, ast.SetComp)):
        # a mutable container: a constant only if nothing in the package writes into it
        for m2 in project.modules.values():
            for n in ast.walk(m2.tree):
                if isinstance(n, (ast.Subscript, ast.Attribute)) and isinstance(n.ctx, (ast.Store, ast.Del)) and isinstance(n.value, (ast.Name, ast.Attribute)) and (getattr(n.value, "id", None) == nm or getattr(n.value, "attr", None) == nm):
                    return None
                if isinstance(n, ast.Call) and isinstance(n.func, ast.Attribute) and n.func.attr in ("append", "extend", "insert", "pop", "remove", "clear", "update", "setdefault", "popitem", "add", "discard", "sort", "reverse") \
                        and isinstance(n.func.value, (ast.Name, ast.Attribute)) and (getattr(n.func.value, "id", None) == nm or getattr(n.func.value, "attr", None) == nm):
                    return None
                if isinstance(n, ast.AugAssign) and isinstance(n.target, ast.Name) and n.target.id == nm:
                    return None
    ex = Extractor(project, None, None, Scope(project, None, module=m))
    try:
        v = ex.ev(m.top_assigns[nm], {})
    except Unsupported:
        return None
    if has_free_var(v):
        return None
    cache[q] = v
    return v


def has_free_var(t) -> bool:
    if not isinstance(t, tuple) or not t:
        return False
    if t[0] == "var":
        return True
    return any(has_free_var(x) or (isinstance(x, tuple) and x and not isinstance(x[0], str) and any(has_free_var(y) for y in x)) for x in t[1:] if isinstance(x, tuple))


def mk_call(q, args):
    args = tuple(args)
    nkw = not any(a[0] == "kw" for a in args)
    if q in ("builtins.pow", "math.pow") and len(args) == 2:
        return binop("**", args[0], args[1])
    if q in ("math.fmod", "math.remainder") and len(args) == 2:
        return ("bin", q.split(".")[1], args[0], args[1])       # same shape as %, different operator
    if q == "math.sqrt" and len(args) == 1:
        return ("call", "sqrt", args)
    if q in ("builtins.max", "builtins.min", "max", "min") and nkw:
        if len(args) == 1 and args[0][0] == "tuple" and len(args[0][1]) >= 2:
            args = args[0][1]
        if len(args) >= 2:
            return mk_minmax(q.rsplit(".", 1)[-1], list(args))
    if q in ("builtins.abs", "math.fabs", "abs") and len(args) == 1:
        x = args[0]
        if is_num(x):
            return num(abs(x[1]))
        if x[0] == "op" and x[1] == "+" and len(x[2]) == 2 and sum(1 for y in x[2] if y[0] == "neg") == 1:
            pos = [y for y in x[2] if y[0] != "neg"][0]
            ng = [y for y in x[2] if y[0] == "neg"][0][1]
            lo, hi = sorted([pos, ng], key=repr)     # |a - b| == |b - a|
            return ("call", "abs", (("op", "+", (lo, ("neg", hi))),))
        return ("call", "abs", args)
    if q in ("builtins.isinstance", "isinstance") and len(args) == 2:
        if args[1][0] == "op" and args[1][1] == "classes":
            return ("call", "isinstance", args)
        classes = args[1][1] if args[1][0] == "tuple" else (args[1],)
        return ("call", "isinstance", (args[0], ("op", "classes", tuple(classes))))   # class set: unordered
    if q in ("builtins.tuple", "builtins.list", "tuple", "list") and len(args) == 1 and args[0][0] == "tuple":
        return args[0]
    if q in ("types.MappingProxyType", "builtins.dict", "dict") and len(args) == 1 and args[0][0] == "dict":
        return args[0]      # a read-only / copied view of a literal mapping maps the same keys to the same values
    if q in ("builtins.all", "builtins.any", "all", "any") and len(args) == 1 and args[0][0] == "tuple":
        return mk_bool("and" if q.endswith("all") else "or", args[0][1])
    if q in ("builtins.any", "any") and len(args) == 1 and args[0][0] == "mapcomp":
        # any(c(x) for x in S)  ==  not all(not c(x) for x in S): one spelling
        return mk_not(("call", "all", (("mapcomp", args[0][1], mk_not(args[0][2])),)))
    if q in ("builtins.len", "len") and len(args) == 1 and args[0][0] in ("tuple", "str"):
        return num(len(args[0][1]))
    if q in ("builtins.bool", "bool") and len(args) == 1 and is_boolish(args[0]):
        return args[0]
    if q in ("builtins.float", "float") and len(args) == 1 and is_num(args[0]) and not isinstance(args[0][1], bool):
        return num(float(args[0][1]))
    if q in ("builtins.float", "float", "builtins.int", "int", "builtins.str", "str", "builtins.bool", "bool") and len(args) == 1 and args[0][0] == "call" \
            and args[0][1] == q.rsplit(".", 1)[-1] and len(args[0][2]) == 1:
        return args[0]          # float(float(x)) is float(x): converting a value that already has exactly that type
    if q in ("re.match", "re.fullmatch", "re.search") and len(args) >= 2:
        return ("call", q, args)
    if q in FUNC_ALIASES:
        return ("call", FUNC_ALIASES[q], args)
    return ("call", q, args)


def format_to_fstr(tmpl: str, args):
    """'rgb({}, {})'.format(a, b) as the equivalent f-string parts; None when the template is not that simple."""
    import string
    parts = []
    auto = 0
    pos = [a for a in args if a[0] != "kw"]
    kws = {a[1]: a[2] for a in args if a[0] == "kw"}
    try:
        for lit, field, spec, conv in string.Formatter().parse(tmpl):
            if lit:
                parts.append(("str", lit))
            if field is None:
                continue
            if conv or (spec and "{" in spec):
                return None
            if field == "":
                val = pos[auto]
                auto += 1
            elif field.isdigit():
                val = pos[int(field)]
            elif field in kws:
                val = kws[field]
            else:
                return None
            parts.append(("fmt", val, spec or ""))
    except (ValueError, IndexError):
        return None
    return mk_fstr(parts)


def mk_fstr(parts):
    out = []
    for p_ in parts:
        if p_[0] == "str" and out and out[-1][0] == "str":
            out[-1] = ("str", out[-1][1] + p_[1])
        elif p_[0] == "fmt" and p_[1][0] == "str" and not p_[2]:
            out.append(("str", p_[1][1]))
            if len(out) > 1 and out[-2][0] == "str":
                out[-2:] = [("str", out[-2][1] + out[-1][1])]
        else:
            out.append(p_)
    if len(out) == 1 and out[0][0] == "str":
        return out[0]
    return ("fstr", tuple(out))


def mk_method(name, base, args):
    args = tuple(args)
    if name == "format" and base[0] == "str":
        r = format_to_fstr(base[1], args)
        if r is not None:
            return r
    if name in ("startswith", "endswith") and len(args) == 1 and args[0][0] == "tuple" and args[0][1]:
        return mk_bool("or", tuple(("method", name, base, (x,)) for x in args[0][1]))
    if name in ("match", "fullmatch", "search") and base[0] == "call" and base[1] == "re.compile" and len(base[2]) >= 1:
        return ("call", f"re.{name}", tuple(base[2][:1]) + args + tuple(base[2][1:]))
    if name == "get" and base[0] == "dict" and len(args) in (1, 2) and all(a[0] != "kw" for a in args):
        # lookup in a literal mapping == the if/elif chain over its keys
        out = args[1] if len(args) == 2 else ("lit", None)
        for kv in reversed(base[1]):
            out = ite(mk_cmp("==", args[0], kv[1][0]), kv[1][1], out)
        return out
    if name in ("lower", "upper", "strip") and base[0] == "str" and not args:
        return ("str", getattr(base[1], name)())
    return ("method", name, base, args)


def num(v):
    return ("num", v)


def is_num(t):
    return t[0] == "num"


def fold(op: str, a, b):
    try:
        x, y = a[1], b[1]
        if op == "+":
            return num(x + y)
        if op == "-":
            return num(x - y)
        if op == "*":
            return num(x * y)
        if op == "/":
            return num(x / y)
        if op == "**":
            return num(x ** y)
        if op == "%":
            return num(x % y)
        if op == "//":
            return num(x // y)
    except Exception:
        return None
    return None


class Extractor:
    def __init__(self, project: Optional[Project], fi: Optional[FuncInfo], fn_node: ast.AST, scope: Optional[Scope] = None, local_prefix: str = "local:"):
        self.project = project
        self.fi = fi
        self.fn = fn_node
        self.scope = scope
        self.local_funcs: Dict[str, ast.AST] = {}
        self.local_prefix = local_prefix

    def learn(self, cond):
        """Record range facts that hold after a validation `if <cond>: raise` (used by interval analysis)."""
        if not hasattr(self, "constraints"):
            self.constraints = []
        if cond[0] == "not":
            pushed = mk_not(cond[1])
            if pushed[0] != "not":
                return self.learn(pushed)
            return
        if cond[0] == "and":
            for c in cond[1]:
                self.learn(c)
            return
        if cond[0] == "cmp":
            op, a, b = cond[1], cond[2], cond[3]
            if is_num(a) and not is_num(b):
                op = {"<=": ">=", "<": ">", ">=": "<=", ">": "<"}.get(op, op)
                a, b = b, a
            if is_num(b) and op in ("<=", "<", ">=", ">"):
                lo, hi = (-math.inf, b[1]) if op in ("<=", "<") else (b[1], math.inf)
                self.constraints.append((a, lo, hi))

    # ---------------------------------------------------------------- names / calls
    def resolve(self, e: ast.AST) -> Optional[str]:
        if self.scope is not None:
            return self.scope.resolve(e)
        # reference snippets: resolve math.* and builtins by spelling
        if isinstance(e, ast.Attribute) and isinstance(e.value, ast.Name) and e.value.id == "math":
            return f"math.{e.attr}"
        if isinstance(e, ast.Name):
            import builtins
            if hasattr(builtins, e.id):
                return f"builtins.{e.id}"
            return f"ref.{e.id}"
        return None

    # ---------------------------------------------------------------- expressions
    def ev(self, e: ast.AST, env: Dict[str, tuple]):
        if isinstance(e, ast.Constant):
            v = e.value
            if isinstance(v, bool) or v is None:
                return ("lit", v)
            if isinstance(v, (int, float)):
                return num(v)
            if isinstance(v, str):
                return ("str", v)
            return ("lit", repr(v))
        if isinstance(e, ast.Name):
            if e.id in env:
                if isinstance(env[e.id], tuple) and env[e.id] and env[e.id][0] == "unreadable":
                    raise Unsupported(env[e.id][1])     # a value that could not be read is an error only where it is used
                return env[e.id]
            if e.id in self.local_funcs:
                return ("fn", self.local_prefix + e.id)
            q = self.resolve(e)
            if q in MATH_CONSTS:
                return num(MATH_CONSTS[q])
            if q in STD_CONSTS:
                return ("str", STD_CONSTS[q])
            if q and self.project is not None:
                v = module_value(self.project, q)
                if v is not None:
                    return v
            return ("var", e.id)
        if isinstance(e, _Term):
            return e.term
        if isinstance(e, ast.Attribute):
            q = self.resolve(e)
            if q in MATH_CONSTS:
                return num(MATH_CONSTS[q])
            if q in STD_CONSTS:
                return ("str", STD_CONSTS[q])
            if q and self.project is not None and not (isinstance(e.value, ast.Name) and e.value.id in env):
                v = module_value(self.project, q)
                if v is not None:
                    return v
            return ("attr", self.ev(e.value, env), e.attr)
        if isinstance(e, ast.UnaryOp):
            v = self.ev(e.operand, env)
            if isinstance(e.op, ast.USub):
                return neg(v)
            if isinstance(e.op, ast.UAdd):
                return v
            if isinstance(e.op, ast.Not):
                return mk_not(v)
            raise Unsupported(f"unary {type(e.op).__name__}")
        if isinstance(e, ast.BinOp):
            op = BINOPS.get(type(e.op))
            if op is None:
                raise Unsupported(f"operator {type(e.op).__name__}")
            l, r = self.ev(e.left, env), self.ev(e.right, env)
            if op == "*":
                for d, k in ((l, r), (r, l)):
                    if d[0] == "tuple" and k[0] == "num" and isinstance(k[1], int) and not isinstance(k[1], bool) and 0 <= k[1] <= 8 and len(d[1]) * k[1] <= 16:
                        return ("tuple", tuple(d[1]) * k[1])        # (x,) * 3 is (x, x, x): terms are values, repeating one repeats nothing that runs
            return binop(op, l, r)
        if isinstance(e, ast.Compare):
            parts = []
            left = self.ev(e.left, env)
            for o, c in zip(e.ops, e.comparators):
                right = self.ev(c, env)
                parts.append(mk_cmp(CMPOPS[type(o)], left, right))
                left = right
            return parts[0] if len(parts) == 1 else mk_bool("and", tuple(parts))
        if isinstance(e, ast.BoolOp):
            vals = tuple(self.ev(v, env) for v in e.values)
            return mk_bool("and" if isinstance(e.op, ast.And) else "or", vals)
        if isinstance(e, ast.IfExp):
            return ite(self.ev(e.test, env), self.ev(e.body, env), self.ev(e.orelse, env))
        if isinstance(e, (ast.Tuple, ast.List)):
            return ("tuple", tuple(self.ev(x, env) for x in e.elts))
        if isinstance(e, ast.Dict) and all(k is not None for k in e.keys) and len(e.keys) <= 64:
            return ("dict", tuple(("tuple", (self.ev(k, env), self.ev(v, env))) for k, v in zip(e.keys, e.values)))
        if isinstance(e, ast.Subscript):
            base = self.ev(e.value, env)
            if isinstance(e.slice, ast.Slice):
                lo = self.ev(e.slice.lower, env) if e.slice.lower is not None else ("lit", None)
                hi = self.ev(e.slice.upper, env) if e.slice.upper is not None else ("lit", None)
                return ("slice", base, lo, hi)
            idx = self.ev(e.slice, env)
            return rebuild_node(("index", base, idx))
        if isinstance(e, ast.Call):
            return self.call(e, env)
        if isinstance(e, ast.JoinedStr):
            parts = []
            for v in e.values:
                if isinstance(v, ast.Constant):
                    parts.append(("str", v.value))
                else:
                    spec = "".join(x.value for x in v.format_spec.values if isinstance(x, ast.Constant)) if v.format_spec is not None else ""
                    parts.append(("fmt", self.ev(v.value, env), spec))
            return mk_fstr(parts)
        if isinstance(e, (ast.ListComp, ast.GeneratorExp)) and len(e.generators) == 1 and not e.generators[0].ifs and isinstance(e.generators[0].target, (ast.Tuple, ast.List)):
            # [f(a, b) for a, b in zip(xs, (k1, k2, k3))]: written out over the rows (a sequence of unknown length zipped with a
            # display is cut to the display's length)
            g = e.generators[0]
            seq = self.ev(g.iter, env)
            def known_len(a):
                # a display, or a call of a package function every return of which is a display of one length
                if a[0] == "tuple":
                    return len(a[1])
                if a[0] == "call" and self.project is not None and isinstance(a[1], str) and a[1] in self.project.funcs:
                    def own(nd):
                        for ch in ast.iter_child_nodes(nd):
                            if isinstance(ch, (ast.FunctionDef, ast.AsyncFunctionDef, ast.Lambda, ast.ClassDef)):
                                continue
                            yield ch
                            yield from own(ch)
                    rets = [r for r in own(self.project.funcs[a[1]].node) if isinstance(r, ast.Return)]
                    def arity(v):
                        if isinstance(v, ast.Tuple) and not any(isinstance(x, ast.Starred) for x in v.elts):
                            return len(v.elts)
                        # tuple(f(c) for c in (r, g, b)): as many as the display that is mapped
                        if isinstance(v, ast.Call) and isinstance(v.func, ast.Name) and v.func.id == "tuple" and len(v.args) == 1 and not v.keywords \
                                and isinstance(v.args[0], (ast.GeneratorExp, ast.ListComp)) and len(v.args[0].generators) == 1 and not v.args[0].generators[0].ifs \
                                and isinstance(v.args[0].generators[0].iter, (ast.Tuple, ast.List)) and not any(isinstance(x, ast.Starred) for x in v.args[0].generators[0].iter.elts):
                            return len(v.args[0].generators[0].iter.elts)
                        return None
                    lens = {arity(r.value) for r in rets}
                    if rets and len(lens) == 1 and None not in lens and not any(isinstance(x, (ast.Yield, ast.YieldFrom)) for x in ast.walk(self.project.funcs[a[1]].node)):
                        return lens.pop()
                return None
            if seq[0] == "call" and seq[1] in ("zip", "builtins.zip") and any(known_len(a) is not None for a in seq[2]) and not any(a[0] == "kw" for a in seq[2]):
                n = min(known_len(a) for a in seq[2] if known_len(a) is not None)
                # (components of a sequence that is not a display are taken the way an unpacking assignment takes them)
                seq = ("tuple", tuple(("tuple", tuple(a[1][i] if a[0] == "tuple" else ("index", a, num(i)) for a in seq[2])) for i in range(n)))
            if seq[0] == "tuple":
                out = []
                for row in seq[1]:
                    env2 = dict(env)
                    self.assign(g.target, row, env2)
                    out.append(self.ev(e.elt, env2))
                return ("tuple", tuple(out))
            if all(isinstance(t_, ast.Name) for t_ in g.target.elts):
                # rows of unknown number: the element expression over a symbolic row (each target is that row's i-th component)
                env2 = dict(env)
                for i_, t_ in enumerate(g.target.elts):
                    env2[t_.id] = rebuild_node(("index", ("var", "$elt"), num(i_)))
                return ("mapcomp", seq, self.ev(e.elt, env2))
            raise Unsupported("comprehension with tuple target over an unreadable sequence")
        if isinstance(e, (ast.ListComp, ast.GeneratorExp)) and len(e.generators) == 1 and e.generators[0].ifs and isinstance(e.generators[0].target, ast.Name):
            g = e.generators[0]
            seq = self.ev(g.iter, env)
            env2 = {**env, g.target.id: ("var", "$elt")}
            return ("filtercomp", seq, self.ev(e.elt, env2), tuple(self.ev(c, env2) for c in g.ifs))
        if isinstance(e, (ast.ListComp, ast.GeneratorExp)) and len(e.generators) == 1 and not e.generators[0].ifs and isinstance(e.generators[0].target, ast.Name):
            g = e.generators[0]
            seq = self.ev(g.iter, env)

            def over(sq):       # a sequence known element by element (also one of two such, chosen by a condition) is mapped element by element
                if sq[0] == "tuple":
                    return ("tuple", tuple(self.ev(e.elt, {**env, g.target.id: x}) for x in sq[1]))
                if sq[0] == "ite":
                    a, b = over(sq[2]), over(sq[3])
                    if a is not None and b is not None:
                        return ite(sq[1], a, b)
                return None
            known = over(seq)
            if known is not None:
                return known
            return ("mapcomp", seq, self.ev(e.elt, {**env, g.target.id: ("var", "$elt")}))
        raise Unsupported(f"expression {type(e).__name__}")

    def call(self, e: ast.Call, env):
        args = [self.ev(a, env) for a in e.args]
        if e.keywords:
            args += [("kw", k.arg, self.ev(k.value, env)) for k in e.keywords]
        if isinstance(e.func, ast.Name) and e.func.id in self.local_funcs and e.func.id not in env:
            r = self.inline_local(self.local_funcs[e.func.id], args, env)
            if r is not None:
                return r
            return ("call", self.local_prefix + e.func.id, tuple(args))
        q = self.resolve(e.func)
        if q is None and self.scope is not None:
            q = self.scope.resolve_call(e)
        if q is not None:
            fi = getattr(self.project, "funcs", {}).get(q) if getattr(self, "project", None) is not None else None
            if fi is not None:
                body = [st for st in fi.node.body if not (isinstance(st, ast.Expr) and isinstance(st.value, ast.Constant))]
                if len(body) == 1 and isinstance(body[0], ast.Raise):
                    return RAISE        # a helper whose whole body is `raise ...`: calling it is raising
                # f(a, large=x) is f(a, x) when `large` is the next positional parameter: one spelling for the comparison
                a_ = fi.node.args
                if not a_.vararg and not a_.kwarg and any(x[0] == "kw" for x in args):
                    params = [x.arg for x in a_.posonlyargs + a_.args]
                    if fi.cls and params and params[0] in ("self", "cls") and not any(isinstance(d, ast.Name) and d.id == "staticmethod" for d in fi.node.decorator_list) and isinstance(e.func, ast.Attribute):
                        params = params[1:]
                    pos = [x for x in args if x[0] != "kw"]
                    kws = {x[1]: x[2] for x in args if x[0] == "kw"}
                    while len(pos) < len(params) and params[len(pos)] in kws:
                        pos.append(kws.pop(params[len(pos)]))
                    args = pos + [("kw", k, v) for k, v in kws.items()]
            return mk_call(q, tuple(args))
        if isinstance(e.func, ast.Attribute):
            return mk_method(e.func.attr, self.ev(e.func.value, env), tuple(args))
        raise Unsupported(f"call to {norm_text(e.func)}")

    def inline_local(self, fn: ast.AST, args, env):
        """A call of a nested function: its body evaluated in the environment of the call (closure semantics)."""
        depth = getattr(self, "_depth", 0)
        if depth > 6:
            return None
        a = fn.args
        if a.vararg or a.kwarg:
            return None
        params = [x.arg for x in a.posonlyargs + a.args]
        pos = [x for x in args if x[0] != "kw"]
        kws = {x[1]: x[2] for x in args if x[0] == "kw"}
        if len(pos) > len(params):
            return None
        bound = dict(zip(params, pos))
        bound.update(kws)
        defaults = dict(zip(params[len(params) - len(a.defaults):], a.defaults))
        for kp, kd in zip(a.kwonlyargs, a.kw_defaults):
            params.append(kp.arg)
            if kd is not None:
                defaults[kp.arg] = kd
        saved = dict(self.local_funcs)
        self._depth = depth + 1
        try:
            for pn in params:
                if pn not in bound:
                    if pn not in defaults:
                        return None
                    bound[pn] = self.ev(defaults[pn], env)
            env2, ret = self.block(fn.body, {**env, **bound})
        except Unsupported:
            return None
        finally:
            self._depth = depth
            self.local_funcs = saved
        return ret if ret is not None else ("lit", None)

    # ---------------------------------------------------------------- statements
    def memo_idiom(self, st, nxt):
        """(target, computed expression) when st; nxt are a transparent memo lookup of a module-level table, None when they are not
        a memo lookup at all; Unsupported when they are one whose key is not shown injective (the value read may be another argument's)."""
        if not (isinstance(st, ast.Assign) and len(st.targets) == 1 and isinstance(st.targets[0], ast.Name) and isinstance(st.value, ast.Call)
                and isinstance(st.value.func, ast.Attribute) and st.value.func.attr == "get" and isinstance(st.value.func.value, ast.Name)
                and len(st.value.args) == 1 and not st.value.keywords and isinstance(nxt, ast.If) and not nxt.orelse and len(nxt.body) in (1, 2)):
            return None
        v, d = st.targets[0].id, st.value.func.value.id
        t = nxt.test
        if not (isinstance(t, ast.Compare) and isinstance(t.left, ast.Name) and t.left.id == v and len(t.ops) == 1 and isinstance(t.ops[0], ast.Is)
                and isinstance(t.comparators[0], ast.Constant) and t.comparators[0].value is None):
            return None
        if not all(isinstance(x, ast.Assign) for x in nxt.body):
            return None
        b = nxt.body[0]
        tg = list(b.targets)
        if len(nxt.body) == 2:      # v = E; D[k] = v   (the chained form after the normaliser split it)
            b2 = nxt.body[1]
            if not (isinstance(b2.value, ast.Name) and b2.value.id == v and len(b2.targets) == 1 and len(tg) == 1):
                return None
            tg = tg + list(b2.targets)
        names = [x for x in tg if isinstance(x, ast.Name) and x.id == v]
        subs = [x for x in tg if isinstance(x, ast.Subscript) and isinstance(x.value, ast.Name) and x.value.id == d]
        if len(names) != 1 or len(subs) != 1 or len(tg) != 2:
            return None
        from sa import memo as M
        params = {a.arg for a in self.fn.args.posonlyargs + self.fn.args.args + self.fn.args.kwonlyargs} if hasattr(self.fn, "args") else set()
        if d in params:
            return None
        lenv, unpack = M._env(self.fn)
        if ast.dump(M._expand(subs[0].slice, lenv, params)) != ast.dump(M._expand(st.value.args[0], lenv, params)):
            raise Unsupported(f"memo table {d}: looked up under one key and stored under another")
        verdict, msg = M.store_verdict(subs[0].slice, b.value, lenv, unpack, params)
        if verdict != "ok":
            raise Unsupported(f"memo table {d}: {msg}")
        return names[0], b.value

    def block(self, stmts: List[ast.stmt], env: Dict[str, tuple]):
        """Returns (env after, returned expression or None when control falls through).
        Early exits taken on some paths only are kept as pending (condition, value) pairs and folded in
        program order into the value of the enclosing terminated block / the function."""
        env, ret, pend = self._block(stmts, env)
        if ret is None and not pend:
            return env, None
        return env, fold_pending(pend, ret if ret is not None else ("lit", None)) if (ret is not None or pend) else None

    def _block(self, stmts: List[ast.stmt], env: Dict[str, tuple]):
        pend: List[tuple] = []
        skip = -1
        for i, st in enumerate(stmts):
            if i == skip:
                continue
            memo = self.memo_idiom(st, stmts[i + 1] if i + 1 < len(stmts) else None)
            if memo is not None:
                # v = D.get(k); if v is None: v = D[k] = E   with k injective in all E is computed from  ==>  v = E
                v, expr = memo
                self.assign(v, self.ev(expr, env), env)
                skip = i + 1
                continue
            if isinstance(st, ast.Expr):
                if isinstance(st.value, ast.Constant):
                    continue
                self.ev(st.value, env)   # must be readable
                continue
            if isinstance(st, ast.Assign):
                try:
                    val = self.ev(st.value, env)
                except Unsupported as ex:
                    if not (len(st.targets) == 1 and isinstance(st.targets[0], ast.Name) and isinstance(st.value, ast.BinOp)):
                        raise
                    val = ("unreadable", str(ex))      # e.g. a bit-packed memo key: only the memo idiom looks at it, through the syntax
                for t in st.targets:
                    self.assign(t, val, env)
                continue
            if isinstance(st, ast.AnnAssign):
                if st.value is not None:
                    self.assign(st.target, self.ev(st.value, env), env)
                continue
            if isinstance(st, ast.AugAssign):
                op = BINOPS.get(type(st.op))
                if op is None or not isinstance(st.target, ast.Name):
                    raise Unsupported("augmented assignment")
                env[st.target.id] = binop(op, self.ev(ast.Name(id=st.target.id, ctx=ast.Load()), env), self.ev(st.value, env))
                continue
            if isinstance(st, ast.Return):
                return env, (self.ev(st.value, env) if st.value is not None else ("lit", None)), pend
            if isinstance(st, ast.Raise):
                return env, RAISE, pend
            if isinstance(st, ast.If):
                cond = self.ev(st.test, env)
                env_t, ret_t, pend_t = self._block(st.body, dict(env))
                env_f, ret_f, pend_f = self._block(st.orelse, dict(env)) if st.orelse else (dict(env), None, [])
                ncond = ("not", cond)
                if ret_t is not None and ret_f is not None:
                    return env, ite(cond, fold_pending(pend_t, ret_t), fold_pending(pend_f, ret_f)), pend
                if ret_t is not None:
                    if ret_t == RAISE and not pend_t:
                        self.learn(("not", cond))
                    pend.append((cond, fold_pending(pend_t, ret_t)))
                    pend += [(("and", (ncond, pc)), pv) for pc, pv in pend_f]
                    env.clear()
                    env.update(env_f)
                    continue
                if ret_f is not None:
                    if ret_f == RAISE and not pend_f:
                        self.learn(cond)
                    pend.append((ncond, fold_pending(pend_f, ret_f)))
                    pend += [(("and", (cond, pc)), pv) for pc, pv in pend_t]
                    env.clear()
                    env.update(env_t)
                    continue
                pend += [(("and", (cond, pc)), pv) for pc, pv in pend_t] + [(("and", (ncond, pc)), pv) for pc, pv in pend_f]
                merged = {}
                for k in set(env_t) | set(env_f):
                    a, b = env_t.get(k), env_f.get(k)
                    if a is None or b is None:
                        merged[k] = ite(cond, a if a is not None else ("unbound", k), b if b is not None else ("unbound", k))
                    elif a == b:
                        merged[k] = a
                    else:
                        merged[k] = ite(cond, a, b)
                env.clear()
                env.update(merged)
                continue
            if isinstance(st, (ast.FunctionDef, ast.AsyncFunctionDef)):
                self.local_funcs[st.name] = st
                continue
            if isinstance(st, (ast.Import, ast.ImportFrom, ast.Pass)):
                continue
            if isinstance(st, ast.For) and not st.orelse and not any(isinstance(x, (ast.Break, ast.Continue)) for b in st.body for x in ast.walk(b)):
                seq = self.ev(st.iter, env)
                if seq[0] == "call" and seq[1] in ("enumerate", "builtins.enumerate") and len(seq[2]) == 1 and seq[2][0][0] == "tuple":
                    seq = ("tuple", tuple(("tuple", (num(k), x)) for k, x in enumerate(seq[2][0][1])))
                if seq[0] == "call" and seq[1] in ("zip", "builtins.zip") and all(a[0] == "tuple" for a in seq[2]) and seq[2]:
                    seq = ("tuple", tuple(("tuple", tuple(row)) for row in zip(*[a[1] for a in seq[2]])))
                if seq[0] == "ite" and seq[2][0] == "tuple" and seq[3][0] == "tuple":
                    # for x in (A if c else B): ...   ==   if c: for x in A: ...  else: for x in B: ...
                    def loop_over(t):
                        return ast.For(target=st.target, iter=_Term(t), body=st.body, orelse=[], lineno=st.lineno, col_offset=0)
                    split = ast.If(test=_Term(seq[1]), body=[loop_over(seq[2])], orelse=[loop_over(seq[3])], lineno=st.lineno, col_offset=0)
                    env2, ret, pend2 = self._block([split] + list(stmts[i + 1:]), env)
                    return env2, ret, pend + pend2
                if seq[0] == "tuple" and len(seq[1]) <= 24:
                    unrolled = []
                    for elt in seq[1]:
                        unrolled.append(ast.Assign(targets=[st.target], value=_Term(elt), lineno=st.lineno))
                        unrolled += st.body
                    env2, ret, pend2 = self._block(unrolled + list(stmts[i + 1:]), env)
                    return env2, ret, pend + pend2
            if isinstance(st, ast.For) and not st.orelse and isinstance(st.target, ast.Name) and len(st.body) == 1 and isinstance(st.body[0], ast.If) and not st.body[0].orelse \
                    and len(st.body[0].body) == 1 and isinstance(st.body[0].body[0], ast.Return):
                # for x in seq: if c(x): return K      ==      if any(c(x) for x in seq): return K
                seq = self.ev(st.iter, env)
                env2 = {**env, st.target.id: ("var", "$elt")}
                cond = self.ev(st.body[0].test, env2)
                rv = st.body[0].body[0].value
                val = self.ev(rv, env2) if rv is not None else ("lit", None)
                if not _mentions(val, ("var", "$elt")):
                    pend.append((mk_call("any", (("mapcomp", seq, cond),)), val))
                    continue
            if isinstance(st, ast.Try) and not st.finalbody and not st.orelse and all(
                    len(h.body) == 1 and isinstance(h.body[0], ast.Raise) for h in st.handlers):
                # try: <computation> except ...: raise ...   -- the handlers only convert the exception
                rest = stmts[i + 1:]
                env2, ret, pend2 = self._block(list(st.body) + list(rest), env)
                return env2, ret, pend + pend2
            raise Unsupported(f"statement {type(st).__name__} at line {getattr(st, 'lineno', 0)}")
        return env, None, pend

    def assign(self, target: ast.AST, val, env):
        if isinstance(target, ast.Name):
            env[target.id] = val
            return
        if isinstance(target, (ast.Tuple, ast.List)):
            n = len(target.elts)
            for k, t in enumerate(target.elts):
                if val[0] == "tuple" and len(val[1]) == n:
                    self.assign(t, val[1][k], env)
                elif val[0] == "mapcomp":
                    self.assign(t, subst_var(val[2], "$elt", ("index", val[1], num(k))), env)
                elif val[0] == "slice":
                    self.assign(t, ("index", val[1], num(k)), env)
                else:
                    self.assign(t, ("index", val, num(k)), env)
            return
        if isinstance(target, (ast.Subscript, ast.Attribute)):
            base = target.value
            while isinstance(base, (ast.Subscript, ast.Attribute)):
                base = base.value
            if isinstance(base, ast.Name) and base.id not in env:
                # a store into a module-level object (a cache, a registry): an effect; the values computed here do not change
                self.__dict__.setdefault("effects", []).append(norm_text(target))
                return
        raise Unsupported(f"assignment target {type(target).__name__}")

    def run(self, params: Optional[List[str]] = None):
        a = self.fn.args
        names = [x.arg for x in a.posonlyargs + a.args + a.kwonlyargs]
        env = {p: ("var", p) for p in names}
        env2, ret = self.block(self.fn.body, env)
        self.final_env = env2
        return env2, ret


def fold_pending(pend, final):
    out = final
    for c, v in reversed(pend):
        out = ite(c, v, out)
    return out


def _mentions(t, leaf) -> bool:
    if t == leaf:
        return True
    return isinstance(t, tuple) and any(_mentions(x, leaf) for x in t if isinstance(x, tuple))


def subst_var(t, name, repl):
    if not isinstance(t, tuple):
        return t
    if t == ("var", name):
        return repl
    return tuple(subst_var(x, name, repl) if isinstance(x, tuple) else x for x in t)


# ---------------------------------------------------------------- smart constructors / normal form
def neg(v):
    if is_num(v):
        return num(-v[1])
    if v[0] == "neg":
        return v[1]
    return ("neg", v)


NEG_OP = {"<": ">=", "<=": ">", ">": "<=", ">=": "<", "==": "!=", "!=": "==", "is": "is not", "is not": "is", "in": "not in", "not in": "in"}
SWAP_OP = {"<": ">", "<=": ">=", ">": "<", ">=": "<=", "==": "==", "!=": "!="}
CONST_HEADS = ("num", "str", "lit")


def mk_cmp(op, a, b):
    """Comparison in normal form: a constant operand goes to the right; `x in (a, b)` is `x == a or x == b`;
    comparisons of two constants are folded."""
    if a[0] in CONST_HEADS and b[0] in CONST_HEADS:
        try:
            x, y = a[1], b[1]
            r = {"==": x == y, "!=": x != y, ">=": x >= y, ">": x > y, "<=": x <= y, "<": x < y, "is": x is y, "is not": x is not y}.get(op)
            if r is not None:
                return ("lit", bool(r))
        except TypeError:
            pass
    if a[0] in CONST_HEADS and b[0] not in CONST_HEADS and op in SWAP_OP:
        op, a, b = SWAP_OP[op], b, a
    if a[0] == "ite" and b[0] in CONST_HEADS and _const_table(a):
        # comparing a choice among constants with a constant: decided per alternative
        return ite(a[1], mk_cmp(op, a[2], b), mk_cmp(op, a[3], b))
    if op in ("in", "not in") and b[0] == "tuple" and 1 <= len(b[1]) <= 8:
        parts = tuple(mk_cmp("==" if op == "in" else "!=", a, x) for x in b[1])
        return mk_bool("or" if op == "in" else "and", parts)
    return ("cmp", op, a, b)


def _const_table(t, d=0) -> bool:
    """A conditional all of whose leaves are constants (e.g. the level returned by an if-chain)."""
    if d > 8:
        return False
    if t[0] == "ite":
        return _const_table(t[2], d + 1) and _const_table(t[3], d + 1)
    return t[0] in CONST_HEADS


def mk_bool(k, vals):
    """and / or in normal form: nested same-kind operands flattened, boolean literals absorbed, duplicates dropped."""
    out = []
    for v in vals:
        if v[0] == k:
            items = v[1]
        else:
            items = (v,)
        for x in items:
            if x[0] == "lit" and isinstance(x[1], bool):
                if k == "and" and not x[1]:
                    return ("lit", False)
                if k == "or" and x[1]:
                    return ("lit", True)
                continue
            if not any(x is y or x == y for y in out):
                # short-circuit context: a later operand is only evaluated when every earlier one was true (and) / false (or)
                if out and _has_ite(x):
                    for y in out:
                        if y[0] in ("var", "method", "call", "cmp", "attr"):
                            x = assume(x, y, k == "and")
                    if x[0] == "lit" and isinstance(x[1], bool):
                        if (k == "and") != x[1]:
                            return ("lit", x[1])
                        continue
                out.append(x)
    if not out:
        return ("lit", k == "and")
    return out[0] if len(out) == 1 else (k, tuple(out))


def _has_ite(t, d=0) -> bool:
    if not isinstance(t, tuple) or d > 12:
        return False
    if t and t[0] == "ite":
        return True
    return any(_has_ite(x, d + 1) for x in t if isinstance(x, tuple))


def mk_not(v):
    """Negation pushed inward (comparisons flipped, De Morgan). NaN operands are outside this normal form."""
    if v[0] == "lit" and isinstance(v[1], bool):
        return ("lit", not v[1])
    if v[0] == "not":
        return v[1]
    if v[0] == "cmp" and v[1] in NEG_OP:
        return ("cmp", NEG_OP[v[1]], v[2], v[3])
    if v[0] == "and":
        return mk_bool("or", tuple(mk_not(x) for x in v[1]))
    if v[0] == "or":
        return mk_bool("and", tuple(mk_not(x) for x in v[1]))
    return ("not", v)


def _facts_of(c, truth, out):
    if c[0] == "lit":
        return
    out.append((c, truth))
    n = mk_not(c)
    if n[0] != "not":
        out.append((n, not truth))
    if c[0] == "not":
        _facts_of(c[1], not truth, out)
    if c[0] == "and" and truth:
        for x in c[1]:
            _facts_of(x, True, out)
    if c[0] == "or" and not truth:
        for x in c[1]:
            _facts_of(x, False, out)


FACT_HEADS = ("cmp", "and", "or", "not", "var", "call", "attr", "method", "index")
DISJOINT_BUILTINS = {"str", "tuple", "list", "dict", "set", "frozenset", "float", "bytes", "bytearray", "complex"}      # (int / bool are related: left out)


def assume(t, c, truth):
    """t with every occurrence of the condition c (or of its negation) replaced by the truth value it has on this branch."""
    facts = []
    _facts_of(c, truth, facts)
    facts = [(f, v) for f, v in facts if f[0] in FACT_HEADS]
    if not facts:
        return t
    memo = {}
    # what is known about the builtin class of a subject: isinstance(x, (A, B)) true -> x is one of A, B
    known_cls = {}
    for f, v in facts:
        if v and f[0] == "call" and f[1] == "isinstance" and len(f[2]) == 2 and f[2][1][0] == "op" and f[2][1][1] == "classes":
            names = {c[1] for c in f[2][1][2] if c[0] == "var"}
            if names and len(names) == len(f[2][1][2]) and names <= DISJOINT_BUILTINS:
                known_cls[f[2][0]] = names

    # numeric bounds established by comparisons that hold on this branch: x > 1.0 decides x <= 1.0 and 0.0 <= x
    # (only comparisons known to be TRUE give bounds: a false `x <= c` also holds for NaN, which has no bounds)
    bounds = {}
    for f, v in facts:
        if v and f[0] == "cmp" and f[1] in ("<", "<=", ">", ">=", "==") and f[3][0] == "num" and isinstance(f[3][1], (int, float)) and not isinstance(f[3][1], bool):
            lo, hi = bounds.get(f[2], ((float("-inf"), False), (float("inf"), False)))
            c = f[3][1]
            if f[1] in (">", ">=", "=="):
                cand = (c, f[1] == ">")
                if cand[0] > lo[0] or (cand[0] == lo[0] and cand[1]):
                    lo = cand
            if f[1] in ("<", "<=", "=="):
                cand = (c, f[1] == "<")
                if cand[0] < hi[0] or (cand[0] == hi[0] and cand[1]):
                    hi = cand
            bounds[f[2]] = (lo, hi)

    def bounds_of(t):
        """bounds of t, also through abs(): |x| <= u gives -u <= x <= u; x > c >= 0 gives |x| > c; x < c <= 0 gives |x| > -c"""
        if t in bounds:
            return bounds[t]
        inf = float("inf")
        def flipped(x):
            """b - a for a - b (abs() keeps one canonical orientation of a difference)"""
            if x[0] == "op" and x[1] == "+" and len(x[2]) == 2 and sum(1 for y in x[2] if y[0] == "neg") == 1:
                pos = [y for y in x[2] if y[0] != "neg"][0]
                ng = [y for y in x[2] if y[0] == "neg"][0][1]
                for cand in (("op", "+", (ng, ("neg", pos))), ("op", "+", (("neg", pos), ng))):
                    if cand in bounds:
                        return cand
            return None
        if t[0] == "call" and t[1] in ("abs", "builtins.abs") and len(t[2]) == 1 and t[2][0] not in bounds and flipped(t[2][0]) is not None:
            (lo, ls), (hi, hs) = bounds[flipped(t[2][0])]
            lo, ls, hi, hs = -hi, hs, -lo, ls           # bounds of the negated difference
            inf = float("inf")
            if lo >= 0:
                return (lo, ls), ((hi, hs) if hi != inf else (inf, False))
            if hi <= 0:
                return (-hi, hs), ((-lo, ls) if lo != -inf else (inf, False))
            if lo != -inf and hi != inf:
                return (0.0, False), (max(-lo, hi), False)
            return None
        if t[0] == "call" and t[1] in ("abs", "builtins.abs") and len(t[2]) == 1 and t[2][0] in bounds:
            (lo, ls), (hi, hs) = bounds[t[2][0]]
            if lo >= 0:
                return (lo, ls), ((hi, hs) if hi != inf else (inf, False))
            if hi <= 0:
                return (-hi, hs), ((-lo, ls) if lo != -inf else (inf, False))
            if lo != -inf and hi != inf:
                return (0.0, False), (max(-lo, hi), False)
            return None
        for k, ((lo, ls), (hi, hs)) in bounds.items():
            if k[0] == "call" and k[1] in ("abs", "builtins.abs") and len(k[2]) == 1 and k[2][0] == t and hi != inf:
                return (-hi, hs), (hi, hs)
        return None

    def decided(n):
        if not bounds or n[0] != "cmp" or n[1] not in ("<", "<=", ">", ">=") or n[3][0] != "num" or isinstance(n[3][1], bool) or not isinstance(n[3][1], (int, float)):
            return None
        bb = bounds_of(n[2])
        if bb is None:
            return None
        (lo, lo_strict), (hi, hi_strict) = bb
        c, op = n[3][1], n[1]
        if op in (">", ">="):
            if lo > c or (lo == c and (lo_strict or op == ">=")):
                return True
            if hi < c or (hi == c and (hi_strict or op == ">")):
                return False
        else:
            if hi < c or (hi == c and (hi_strict or op == "<=")):
                return True
            if lo > c or (lo == c and (lo_strict or op == "<")):
                return False
        return None

    # integer-valued terms (len(...)): values excluded on this branch (`len(x) == 3` known false)
    excluded = {}
    for f, v in facts:
        if f[0] == "cmp" and f[3][0] == "num" and isinstance(f[3][1], int) and not isinstance(f[3][1], bool) and f[2][0] == "call" and f[2][1] in ("len", "builtins.len"):
            if (f[1] == "==" and not v) or (f[1] == "!=" and v):
                excluded.setdefault(f[2], set()).add(f[3][1])

    def empty_int_range(n):
        """an `and` of comparisons that confines an integer-valued term to a finite range all of whose members are excluded"""
        if not excluded or n[0] != "and":
            return False
        for t in excluded:
            lo, hi = None, None
            for p in n[1]:
                if p[0] == "cmp" and p[2] == t and p[3][0] == "num" and isinstance(p[3][1], int) and not isinstance(p[3][1], bool):
                    c = p[3][1]
                    if p[1] == ">=":
                        lo = c if lo is None else max(lo, c)
                    elif p[1] == ">":
                        lo = c + 1 if lo is None else max(lo, c + 1)
                    elif p[1] == "<=":
                        hi = c if hi is None else min(hi, c)
                    elif p[1] == "<":
                        hi = c - 1 if hi is None else min(hi, c - 1)
                    elif p[1] == "==":
                        lo = c if lo is None else max(lo, c)
                        hi = c if hi is None else min(hi, c)
            if lo is not None and hi is not None and hi - lo <= 16:
                left = [k for k in range(lo, hi + 1) if k not in excluded[t]]
                others = [p for p in n[1] if not (p[0] == "cmp" and p[2] == t and p[3][0] == "num")]
                if not left:
                    return True
                if len(left) == 1 and hi > lo:
                    eq = ("cmp", "==", t, ("num", left[0]))       # 3 <= len(x) <= 4 where len(x) != 3: len(x) == 4
                    return eq if not others else mk_bool("and", tuple(go(o) for o in others) + (eq,))
        return False

    def go(n):
        if not isinstance(n, tuple) or not n or not isinstance(n[0], str) or n[0] in ("num", "str", "lit"):
            return n
        key = id(n)
        if key in memo:
            return memo[key][1]
        res = None
        if n[0] in FACT_HEADS:
            for f, v in facts:
                if n is f or (n[0] == f[0] and n == f):
                    res = ("lit", v)
                    break
            if res is None:
                d = decided(n)
                if d is not None:
                    res = ("lit", d)
            if res is None:
                er = empty_int_range(n)
                if er is True:
                    res = ("lit", False)
                elif er:
                    res = er
            if res is None and known_cls and n[0] == "call" and n[1] == "isinstance" and len(n[2]) == 2 and n[2][0] in known_cls and n[2][1][0] == "op":
                asked = {c[1] for c in n[2][1][2] if c[0] == "var"}
                if len(asked) == len(n[2][1][2]) and asked <= DISJOINT_BUILTINS:
                    if known_cls[n[2][0]] <= asked:
                        res = ("lit", True)
                    elif not (known_cls[n[2][0]] & asked):
                        res = ("lit", False)        # str / tuple / list / dict / float ... instances are never instances of one another
        if res is None:
            changed = False
            parts = []
            for x in n:
                if isinstance(x, tuple) and x and isinstance(x[0], str):
                    y = go(x)
                elif isinstance(x, tuple):
                    y = tuple(go(z) if isinstance(z, tuple) and z and isinstance(z[0], str) else z for z in x)
                    if all(p is q for p, q in zip(y, x)):
                        y = x
                else:
                    y = x
                changed = changed or (y is not x)
                parts.append(y)
            res = rebuild_node(tuple(parts)) if changed else n
        memo[key] = (n, res)
        return res
    return go(t)


def is_boolish(c):
    return c[0] in ("cmp", "and", "or", "not") or (c[0] == "lit" and isinstance(c[1], bool)) or (c[0] == "call" and c[1] in ("isinstance", "bool", "all", "any")) \
        or (c[0] == "method" and c[1] in ("startswith", "endswith", "isdigit", "isalpha"))


def ite(c, a, b):
    if c[0] == "lit" and (isinstance(c[1], bool) or c[1] is None):
        return a if c[1] else b
    if c[0] == "not":
        return ite(c[1], b, a)
    if c[0] == "cmp" and c[1] in ("!=", "is not", "not in"):
        return ite(mk_not(c), b, a)
    a = assume(a, c, True)
    b = assume(b, c, False)
    if a is b or a == b:
        return a
    if a == ("lit", True) and b == ("lit", False) and is_boolish(c):
        return c
    if a == ("lit", False) and b == ("lit", True) and is_boolish(c):
        return mk_not(c)
    if is_boolish(c):
        # a conditional between a truth value and a boolean expression is a conjunction / disjunction
        if a == ("lit", False) and is_boolish(b):
            return mk_bool("and", (mk_not(c), b))
        if a == ("lit", True) and is_boolish(b):
            return mk_bool("or", (c, b))
        if b == ("lit", False) and is_boolish(a):
            return mk_bool("and", (c, a))
        if b == ("lit", True) and is_boolish(a):
            return mk_bool("or", (mk_not(c), a))
    if c[0] == "cmp" and c[1] in ("<", "<=", ">", ">=") and ((a == c[2] and b == c[3]) or (a == c[3] and b == c[2])):
        larger = (c[1] in (">", ">=")) == (a == c[2])
        return mk_minmax("max" if larger else "min", [c[2], c[3]])
    if b[0] == "ite" and b[2] == a:
        return ite(mk_bool("or", (c, b[1])), a, b[3])
    if a[0] == "ite" and a[3] == b:
        return ite(mk_bool("and", (c, a[1])), a[2], b)
    return ("ite", c, a, b)


def mk_minmax(name, args):
    if name == "min" and len(args) == 2:
        # clamp written outside-in: min(hi, max(lo, x)) == max(lo, min(hi, x)) for lo <= hi
        hi = [a for a in args if is_num(a)]
        inner = [a for a in args if a[0] == "op" and a[1] == "max" and len(a[2]) == 2]
        if len(hi) == 1 and len(inner) == 1:
            lo = [a for a in inner[0][2] if is_num(a)]
            x = [a for a in inner[0][2] if not is_num(a)]
            if len(lo) == 1 and len(x) == 1 and lo[0][1] <= hi[0][1]:
                return ("op", "max", (lo[0], ("op", "min", (hi[0], x[0]))))
    if all(is_num(a) for a in args):
        return num((max if name == "max" else min)(a[1] for a in args))
    return ("op", name, tuple(args))     # commutative: operands are aligned, not ordered


def binop(op, a, b):
    if is_num(a) and is_num(b):
        f = fold(op, a, b)
        if f is not None:
            return f
    if op == "-":
        return binop("+", a, neg(b))
    if op in ("+", "*"):
        items = []
        for x in (a, b):
            if x[0] == "op" and x[1] == op:
                items.extend(x[2])
            else:
                items.append(x)
        # fold numeric items together
        nums = [x for x in items if is_num(x)]
        rest = [x for x in items if not is_num(x)]
        if len(nums) > 1:
            acc = nums[0]
            for n2 in nums[1:]:
                acc = fold(op, acc, n2)
            nums = [acc]
        if op == "*" and len(rest) > 1:
            # x * x * x  ==  x ** 3
            counted = []
            for x in rest:
                base, k = x, 1
                if x[0] == "bin" and x[1] == "**" and is_num(x[3]) and isinstance(x[3][1], int) and x[3][1] > 0:
                    base, k = x[2], x[3][1]
                for ent in counted:
                    if ent[0] == base:
                        ent[1] += k
                        break
                else:
                    counted.append([base, k])
            rest = [x if k == 1 else ("bin", "**", x, num(k)) for x, k in counted]
        ident = 1 if op == "*" else 0
        if nums and nums[0][1] == ident and rest and not isinstance(nums[0][1], bool):
            nums = []          # x * 1, x + 0
        items = nums + rest
        if len(items) == 1:
            return items[0]
        return ("op", op, tuple(items))
    return ("bin", op, a, b)


def size(t) -> int:
    d = Dag()
    return d.size(d.add(t))


def skeleton(t):
    """Structure with numeric literals blanked (used to align commutative operands)."""
    if not isinstance(t, tuple):
        return t
    if t and t[0] == "num":
        return ("num",)
    if t and t[0] == "op":
        return ("op", t[1], tuple(sorted((skeleton(x) for x in t[2]), key=repr)))
    return tuple(skeleton(x) if isinstance(x, tuple) else x for x in t)


def show(t, depth=0) -> str:
    if not isinstance(t, tuple) or not t:
        return repr(t)
    k = t[0]
    if k == "num":
        return repr(t[1])
    if k == "var":
        return t[1]
    if k in ("str", "lit"):
        return repr(t[1])
    if k == "op":
        return "(" + f" {t[1]} ".join(show(x) for x in t[2]) + ")"
    if k == "bin":
        return f"({show(t[2])} {t[1]} {show(t[3])})"
    if k == "neg":
        return f"-{show(t[1])}"
    if k == "call":
        return f"{str(t[1]).rsplit('.', 1)[-1]}({', '.join(show(x) for x in t[2])})"
    if k == "cmp":
        return f"({show(t[2])} {t[1]} {show(t[3])})"
    if k == "ite":
        return f"[{show(t[1])} ? {show(t[2])} : {show(t[3])}]"
    if k == "index":
        return f"{show(t[1])}[{show(t[2])}]"
    if k in ("and", "or"):
        return "(" + f" {k} ".join(show(x) for x in t[1]) + ")"
    if k == "not":
        return f"not {show(t[1])}"
    if k == "tuple":
        return "(" + ", ".join(show(x) for x in t[1]) + ")"
    if k == "attr":
        return f"{show(t[1])}.{t[2]}"
    if k == "method":
        return f"{show(t[2])}.{t[1]}({', '.join(show(x) for x in t[3])})"
    if k == "raise":
        return "raise"
    if k == "kw":
        return f"{t[1]}={show(t[2])}"
    return str(t)


# ---------------------------------------------------------------- comparison (on a hash-consed DAG)
class Mismatch:
    __slots__ = ("kind", "code", "ref", "note")

    def __init__(self, kind, code, ref, note=""):
        self.kind, self.code, self.ref, self.note = kind, code, ref, note   # code / ref: short renderings

    def __repr__(self):
        return f"{self.kind}: code {self.code} vs definition {self.ref} {self.note}"


class Policy:
    """How constants are compared. default: relative tolerance; per-reference-value overrides:
    classes[ref_value] = (lo, hi, lo_inclusive, hi_inclusive) accepted interval for the code's literal."""

    def __init__(self, rel=1e-9, classes: Optional[Dict[float, tuple]] = None, alternates: Optional[Dict[float, List[float]]] = None, var_map: Optional[Dict[str, str]] = None):
        self.rel = rel
        self.classes = classes or {}
        self.alternates = alternates or {}
        self.var_map = var_map or {}
        self.cmp_equiv = None    # optional: f(code_op, ref_op, code_const, ref_const) -> bool

    def const_ok(self, code_v, ref_v) -> bool:
        if isinstance(code_v, bool) or isinstance(ref_v, bool):
            return code_v == ref_v
        if ref_v in self.classes:
            lo, hi, li, hi_i = self.classes[ref_v]
            return (lo < code_v or (li and code_v == lo)) and (code_v < hi or (hi_i and code_v == hi))
        for alt in [ref_v] + self.alternates.get(ref_v, []):
            if alt == code_v:
                return True
            if alt != 0 and abs(code_v - alt) <= self.rel * abs(alt):
                return True
        return False


class Dag:
    """Hash-consed expression DAG: node id -> (head, child ids). Shared sub-expressions (inlined
    temporaries) are one node, so comparison is polynomial in the size of the *source*, not of the
    fully inlined formula."""

    def __init__(self):
        self.nodes: List[tuple] = []
        self.table: Dict[tuple, int] = {}
        self._by_obj: Dict[int, int] = {}
        self._keep: List = []
        self._size: Dict[int, int] = {}
        self.term: Dict[int, tuple] = {}

    def add(self, t) -> int:
        oid = id(t)
        if oid in self._by_obj:
            return self._by_obj[oid]
        head, kids = self.split(t)
        key = (head, tuple(self.add(k) for k in kids))
        i = self.table.get(key)
        if i is None:
            i = len(self.nodes)
            self.nodes.append(key)
            self.table[key] = i
        self._by_obj[oid] = i
        self._keep.append(t)
        self.term.setdefault(i, t)
        return i

    @staticmethod
    def split(t):
        k = t[0]
        if k in ("num", "var", "str", "lit"):
            return (k, t[1]), []
        if k == "op":
            return ("op", t[1], len(t[2])), list(t[2])
        if k == "bin":
            return ("bin", t[1]), [t[2], t[3]]
        if k in ("neg", "not"):
            return (k,), [t[1]]
        if k == "call":
            return ("call", t[1], len(t[2])), list(t[2])
        if k == "cmp":
            return ("cmp", t[1]), [t[2], t[3]]
        if k == "ite":
            return ("ite",), [t[1], t[2], t[3]]
        if k in ("and", "or", "tuple", "fstr", "dict"):
            return (k, len(t[1])), list(t[1])
        if k == "index":
            return ("index",), [t[1], t[2]]
        if k == "attr":
            return ("attr", t[2]), [t[1]]
        if k == "method":
            return ("method", t[1], len(t[3])), [t[2]] + list(t[3])
        if k == "kw":
            return ("kw", t[1]), [t[2]]
        if k == "fmt":
            return ("fmt", t[2]), [t[1]]
        if k == "slice":
            return ("slice",), [t[1], t[2], t[3]]
        if k == "mapcomp":
            return ("mapcomp",), [t[1], t[2]]
        if k == "filtercomp":
            return ("filtercomp", len(t[3])), [t[1], t[2]] + list(t[3])
        if k == "raise":
            return ("raise",), []
        if k == "fn":
            return ("fn", t[1]), []
        if k == "unbound":
            return ("unbound", t[1]), []
        return (k,) + tuple(x for x in t[1:] if not isinstance(x, tuple)), [x for x in t[1:] if isinstance(x, tuple)]

    def size(self, i: int) -> int:
        if i not in self._size:
            self._size[i] = 1
            self._size[i] = 1 + sum(self.size(c) for c in self.nodes[i][1])
        return self._size[i]

    def show(self, i: int, depth: int = 4) -> str:
        head, kids = self.nodes[i]
        k = head[0]
        if k == "num":
            return repr(head[1])
        if k == "var":
            return head[1]
        if k in ("str", "lit"):
            return repr(head[1])
        if depth <= 0:
            return "..."
        ks = [self.show(c, depth - 1) for c in kids]
        if k == "op":
            return "(" + f" {head[1]} ".join(ks) + ")"
        if k == "bin":
            return f"({ks[0]} {head[1]} {ks[1]})"
        if k == "neg":
            return "-" + ks[0]
        if k == "call":
            return f"{str(head[1]).rsplit('.', 1)[-1]}({', '.join(ks)})"
        if k == "cmp":
            return f"({ks[0]} {head[1]} {ks[1]})"
        if k == "ite":
            return f"[{ks[0]} ? {ks[1]} : {ks[2]}]"
        if k == "index":
            return f"{ks[0]}[{ks[1]}]"
        if k in ("and", "or"):
            return "(" + f" {k} ".join(ks) + ")"
        if k == "tuple":
            return "(" + ", ".join(ks) + ")"
        if k == "attr":
            return f"{ks[0]}.{head[1]}"
        if k == "method":
            return f"{ks[0]}.{head[1]}({', '.join(ks[1:])})"
        return f"{k}({', '.join(ks)})"


WEIGHT = {"const": 1, "operator": 2, "binding": 2, "structure": 3}
REGEX_FUNCS = ("re.fullmatch", "re.match", "re.search", "ref.re_fullmatch", "ref.re_match", "ref.re_search")


def regex_norm(pat: str, lowered: bool):
    """Structure of a regular expression with character classes as explicit sets; when the subject is known to be
    lower-cased, upper-case letters are dropped from the classes (they can never be matched)."""
    import re._parser as sre      # stdlib regex parser: the pattern is parsed, never run
    from re import _constants as C

    def conv(items):
        out = []
        for op, av in items:
            name = str(op)
            if op is C.IN:
                chars, cats, negate = set(), [], False
                for o2, a2 in av:
                    if o2 is C.NEGATE:
                        negate = True
                    elif o2 is C.LITERAL:
                        chars.add(a2)
                    elif o2 is C.RANGE:
                        chars |= set(range(a2[0], a2[1] + 1))
                    else:
                        cats.append((str(o2), str(a2)))
                if lowered and not negate:
                    chars = {c for c in chars if not (65 <= c <= 90)}
                out.append(("IN", negate, frozenset(chars), tuple(sorted(cats))))
            elif op is C.LITERAL:
                out.append(("IN", False, frozenset({av}), ()))
            elif op is C.BRANCH:
                out.append(("BRANCH", tuple(conv(b) for b in av[1])))
            elif op is C.SUBPATTERN:
                out.append(("GROUP", av[0] is not None, conv(av[3])))
            elif op in (C.MAX_REPEAT, C.MIN_REPEAT):
                out.append((name, av[0], int(av[1]) if av[1] != C.MAXREPEAT else -1, conv(av[2])))
            else:
                out.append((name, repr(av)))
        return tuple(out)
    try:
        return conv(sre.parse(pat))
    except Exception:
        return ("unparsed", pat)


def regex_equiv(p1: str, p2: str, lowered: bool) -> bool:
    return p1 == p2 or regex_norm(p1, lowered) == regex_norm(p2, lowered)


def compare(code, ref, policy: Policy) -> List[Mismatch]:
    """Best alignment of two normal-form expressions; returns the mismatches of that alignment."""
    D = Dag()
    ia, ib = D.add(code), D.add(ref)
    memo: Dict[tuple, List[Mismatch]] = {}

    def cost(ms: List[Mismatch]) -> int:
        return sum(m.note if m.kind == "shape" else WEIGHT[m.kind] for m in ms) if not any(m.kind == "shape" for m in ms) else sum((m._w if hasattr(m, "_w") else 50) if m.kind == "shape" else WEIGHT[m.kind] for m in ms)

    def shape(a, b):
        m = Mismatch("shape", D.show(a), D.show(b))
        return [m]

    def mk(kind, a, b, note=""):
        return Mismatch(kind, D.show(a), D.show(b), note)

    def wcost(ms, a=None, b=None):
        c = 0
        seen = set()
        for m in ms:
            if m.kind == "shape":
                c += 10 ** 6
                continue
            k = (m.kind, m.code, m.ref)
            if k in seen:
                continue        # the same leaf difference reached through several shared sub-expressions counts once
            seen.add(k)
            c += WEIGHT[m.kind]
        return c

    def go(a: int, b: int) -> List[Mismatch]:
        key = (a, b)
        if key in memo:
            return memo[key]
        memo[key] = shape(a, b)      # cycle guard (cannot happen in a DAG, cheap anyway)
        res = go2(a, b)
        memo[key] = res
        return res

    def has_shape(ms):
        return any(m.kind == "shape" for m in ms)

    def go2(a, b):
        if a == b:
            return []
        (ha, ca), (hb, cb) = D.nodes[a], D.nodes[b]
        ka, kb = ha[0], hb[0]
        if ka == "num" and kb == "num":
            return [] if policy.const_ok(ha[1], hb[1]) else [mk("const", a, b)]
        if ka == "var" and kb == "var":
            want = policy.var_map.get(hb[1], hb[1])
            return [] if ha[1] == want else [mk("binding", a, b)]
        if ka in ("str", "lit") and kb in ("str", "lit"):
            return [] if ha[1] == hb[1] else [mk("const", a, b)]
        if ka == "call" and ha == hb and ha[1] in REGEX_FUNCS and len(ca) >= 2 and len(ca) == len(cb):
            (p1, _), (p2, _) = D.nodes[ca[0]], D.nodes[cb[0]]
            if p1[0] == "str" and p2[0] == "str" and p1[1] != p2[1]:
                subj = D.nodes[ca[1]][0]
                lowered = subj[0] == "method" and subj[1] in ("lower", "casefold")
                if regex_equiv(p1[1], p2[1], lowered):
                    return sum((go(x, y) for x, y in zip(ca[1:], cb[1:])), [])
        if ka == "ite" and kb == "ite":
            direct = sum((go(x, y) for x, y in zip(ca, cb)), [])
            # c1 ? A : (c2 ? B : R)  and  c2 ? B : (c1 ? A : R)  are the same function when c1 and c2 exclude one another
            if direct and a in D.term and D.term[a][0] == "ite" and D.term[a][3][0] == "ite":
                ta = D.term[a]
                c1, c2 = ta[1], ta[3][1]
                if assume(c2, c1, True) == ("lit", False) or assume(c1, c2, True) == ("lit", False):
                    swapped = ("ite", c2, ta[3][2], ("ite", c1, ta[2], ta[3][3]))
                    alt = go(D.add(swapped), b)
                    if not alt:
                        return alt
            if direct and cb[0] in D.term:
                nt = mk_not(D.term[cb[0]])
                if nt[0] != "not":
                    j = D.add(nt)
                    alt = go(ca[0], j) + go(ca[1], cb[2]) + go(ca[2], cb[1])
                    if not has_shape(alt) and (has_shape(direct) or wcost(alt) < wcost(direct)):
                        return alt
            if not has_shape(direct):
                return direct
        if ha == hb and len(ca) == len(cb):
            if ka == "op":
                out = best_assignment(ca, cb)
            else:
                out = []
                for x, y in zip(ca, cb):
                    out += go(x, y)
            if not has_shape(out):
                return out
            # same head but the operands do not align: maybe one side is nested inside the other
            w = wrapper(a, b, code_side=True)
            if w is not None:
                return [mk("structure", a, b, "(extra operation in the code)")] + w
            w = wrapper(b, a, code_side=False)
            if w is not None:
                return [mk("structure", a, b, "(operation of the definition missing in the code)")] + w
            return out
        if ka == "cmp" and kb == "cmp" and policy.cmp_equiv is not None and len(ca) == 2:
            (h1, _), (h2, _) = D.nodes[ca[1]], D.nodes[cb[1]]
            if h1[0] == "num" and h2[0] == "num" and policy.cmp_equiv(ha[1], hb[1], h1[1], h2[1]):
                return go(ca[0], cb[0])
        if ka == kb and len(ca) == len(cb) and ka in ("bin", "call", "cmp", "op", "method", "attr"):
            inner = best_assignment(ca, cb) if ka == "op" else sum((go(x, y) for x, y in zip(ca, cb)), [])
            if not has_shape(inner):
                return [mk("operator", a, b, f"({' '.join(map(str, ha[1:2]))} instead of {' '.join(map(str, hb[1:2]))})")] + inner
        if (ka, kb) in (("and", "or"), ("or", "and")) and len(ca) == len(cb):
            inner = sum((go(x, y) for x, y in zip(ca, cb)), [])
            if not has_shape(inner):
                return [mk("operator", a, b, f"({ka} instead of {kb})")] + inner
        if ka == "op" and kb == "op" and ha[1] == hb[1]:
            res = partial_assignment(ca, cb, a, b)
            if res is not None:
                return res
        w = wrapper(a, b, code_side=True)
        if w is not None:
            return [mk("structure", a, b, "(extra operation in the code)")] + w
        w = wrapper(b, a, code_side=False)
        if w is not None:
            return [mk("structure", a, b, "(operation of the definition missing in the code)")] + w
        return shape(a, b)

    def wrapper(big, small, code_side):
        """big = f(.., x, ..) with x aligning with small: an operation present on one side only."""
        hb_, kids = D.nodes[big]
        if hb_[0] in ("tuple",) or D.size(big) <= D.size(small):
            return None
        best = None
        for ch in kids:
            if D.size(ch) * 10 >= D.size(small) * 6:
                sub = go(ch, small) if code_side else go(small, ch)
                if not has_shape(sub) and sum(1 for m in sub if m.kind == "structure") <= 2:
                    if best is None or wcost(sub) < wcost(best):
                        best = sub
        return best

    def best_assignment(ca, cb):
        n = len(ca)
        costs = [[go(x, y) for y in cb] for x in ca]
        if n > 7:
            left = list(range(n))
            out = []
            for i in range(n):
                j = min(left, key=lambda j: wcost(costs[i][j]))
                left.remove(j)
                out += costs[i][j]
            return out
        best = None
        for perm in itertools.permutations(range(n)):
            c = 0
            for i, j in enumerate(perm):
                c += wcost(costs[i][j])
                if best is not None and c >= best[0]:
                    break
            else:
                if best is None or c < best[0]:
                    best = (c, perm)
                    if c == 0:
                        break
        out = []
        for i, j in enumerate(best[1]):
            out += costs[i][j]
        return out

    def partial_assignment(ca, cb, a, b):
        code_small = len(ca) < len(cb)
        small, big = (ca, cb) if code_small else (cb, ca)
        if len(big) - len(small) > 2 or len(big) > 7:
            return None
        bestv = None
        for sel in itertools.permutations(range(len(big)), len(small)):
            tot = []
            for i, j in enumerate(sel):
                tot += go(small[i], big[j]) if code_small else go(big[j], small[i])
            if has_shape(tot):
                continue
            c = wcost(tot)
            if bestv is None or c < bestv[0]:
                bestv = (c, tot, sel)
        if bestv is None:
            return grouped_assignment(ca, cb, a, b)
        left = [big[j] for j in range(len(big)) if j not in bestv[2]]
        who = "the definition has" if code_small else "the code has"
        return [mk("structure", a, b, f"({who} extra term(s) {[D.show(x, 3)[:50] for x in left]})")] + bestv[1]

    def grouped_assignment(ca, cb, a, b):
        """[k, t1, t2, t3] vs [k, f(t1 + t2 + t3)]: pair off what aligns exactly, then compare the rest as one group."""
        ra, rb = list(ca), list(cb)
        for x in list(ra):
            for y in list(rb):
                if not go(x, y):
                    ra.remove(x)
                    rb.remove(y)
                    break
        if not ra or not rb or (len(ra) > 1 and len(rb) > 1):
            return None
        opname = D.nodes[a][0][1]

        def group(ids):
            if len(ids) == 1:
                return ids[0]
            key = (("op", opname, len(ids)), tuple(ids))
            i = D.table.get(key)
            if i is None:
                i = len(D.nodes)
                D.nodes.append(key)
                D.table[key] = i
            return i
        sub = go(group(ra), group(rb))
        return None if has_shape(sub) else sub

    return go(ia, ib)


def term(src: str, **env):
    """Normal-form term of an expression written as source text (names not bound by env stay variables; RAISE is the raise marker)."""
    e = ast.parse(src, mode="eval").body
    return Extractor(None, None, None, None).ev(e, {"RAISE": RAISE, **env})


def final_value(t):
    """Strip the validation wrappers `cond ? raise : value`."""
    while t[0] == "ite":
        if t[2] == RAISE:
            t = t[3]
        elif t[3] == RAISE:
            t = t[2]
        else:
            break
    return t


def raise_guards(t):
    """Conditions under which the function raises before producing its value (each must be FALSE for the value);
    disjunctions are split into their alternatives."""
    out = []
    while t[0] == "ite":
        if t[2] == RAISE:
            c = t[1]
            t = t[3]
        elif t[3] == RAISE:
            c = mk_not(t[1])
            t = t[2]
        else:
            break
        out += list(c[1]) if c[0] == "or" else [c]
    return out


def guards_cover(guards, ref, policy=None) -> bool:
    """Every alternative of the reference rejection condition is one of the function's raise guards."""
    policy = policy or Policy()
    return all(any(not compare(g, d, policy) for g in guards) for d in (ref[1] if ref[0] == "or" else (ref,)))


def specialise(t, f):
    """Partial evaluation: f maps a node to a literal (or returns it unchanged); conditionals decided by literals fold away."""
    return transform(t, f)


def inline_self_properties(t, project: Project, fi: FuncInfo, depth: int = 0):
    """self.<name> where <name> is a @property of the method's own class: replaced by the property's closed form."""
    if fi.cls is None or depth > 4:
        return t
    from .resolve import is_property
    cls_q = f"{fi.module.name}.{fi.cls}"

    def f(n):
        if n[0] == "attr" and n[1] == ("var", "self"):
            q = f"{cls_q}.{n[2]}"
            pf = project.funcs.get(q)
            if pf is not None and is_property(pf) and pf is not fi:
                try:
                    ex = Extractor(project, pf, pf.node, Scope(project, pf), local_prefix=pf.qualname + ".<locals>.")
                    _env, ret = ex.run()
                except Unsupported:
                    return n
                if ret is not None:
                    return inline_self_properties(ret, project, pf, depth + 1)
        return n
    return transform(t, f)


def contains_ite(t) -> bool:
    st, seen = [t], set()
    while st:
        x = st.pop()
        if not isinstance(x, tuple) or id(x) in seen:
            continue
        seen.add(id(x))
        if x and x[0] == "ite":
            return True
        st.extend(y for y in x if isinstance(y, tuple))
    return False


def outer_conditions(t):
    """Conditions of the conditionals that are not inside a branch of another conditional (and contain none themselves)."""
    out = []
    seen = set()

    def walk(n, in_branch):
        if not isinstance(n, tuple) or not n or (id(n), in_branch) in seen:
            return
        seen.add((id(n), in_branch))
        if isinstance(n[0], str) and n[0] == "ite":
            if not in_branch and not contains_ite(n[1]) and n[1] not in out:
                out.append(n[1])
            walk(n[1], in_branch)
            walk(n[2], True)
            walk(n[3], True)
            return
        for x in n:
            if isinstance(x, tuple):
                walk(x, in_branch)
    walk(t, False)
    return out


def small_conditions(t, limit: int = 4):
    """Conditions of conditionals anywhere in the term that are small (a flag, a short comparison) and contain no conditional."""
    out = []
    seen = set()
    st = [t]
    while st:
        n = st.pop()
        if not isinstance(n, tuple) or not n or id(n) in seen:
            continue
        seen.add(id(n))
        if isinstance(n[0], str) and n[0] == "ite" and not contains_ite(n[1]) and size(n[1]) <= limit and n[1] not in out:
            out.append(n[1])
        st.extend(x for x in n if isinstance(x, tuple))
    return out


def compare_lifted(code, ref, policy, rounds: int = 3):
    """compare(), and when that leaves mismatches, once more after case-splitting both sides on their outermost
    conditions (`f(c ? a : b)` and `c ? f(a) : f(b)` are the same function). Returns (mismatches, code, ref) of the
    variant that aligned best."""
    ms = compare(code, ref, policy)
    if not ms:
        return ms, code, ref
    c2 = code
    tried = []
    r2 = substitute(ref, {k: ("var", v) for k, v in policy.var_map.items()}) if policy.var_map else ref     # one vocabulary for the conditions
    for _ in range(rounds):
        conds = outer_conditions(c2)
        conds += [c for c in outer_conditions(r2) if c not in conds]
        conds += [c for c in small_conditions(c2) + small_conditions(r2) if c not in conds]
        conds = [c for c in conds if c not in tried]
        conds = sorted(conds, key=lambda c: (size(c), repr(c)))[:3]
        tried += conds
        if not conds:
            break
        before = (c2, r2)
        for c in conds:
            c2 = ite(c, c2, c2)
            r2 = ite(c, r2, r2)
            ms2 = compare(c2, r2, policy)
            if not ms2:
                return ms2, c2, r2
            if any(m.kind == "shape" for m in ms) and not any(m.kind == "shape" for m in ms2):
                ms = ms2
        if (c2, r2) == before:
            break
    return ms, code, ref


def extract_function(project: Project, fi: FuncInfo):
    """(return expression, final env, nested-function extractor access)."""
    ex = Extractor(project, fi, fi.node, Scope(project, fi), local_prefix=fi.qualname + ".<locals>.")
    env, ret = ex.run()
    return ex, env, ret


def extract_reference(src: str, name: Optional[str] = None):
    tree = ast.parse(src)
    fns = [n for n in tree.body if isinstance(n, ast.FunctionDef)]
    fn = fns[0] if name is None else next(f for f in fns if f.name == name)
    ex = Extractor(None, None, fn, None)
    env, ret = ex.run()
    return ex, env, ret


def nested(ex: Extractor, name: str, project: Optional[Project] = None, parent: Optional[FuncInfo] = None):
    """Extract a nested helper function defined inside the function ``ex`` was run on."""
    node = ex.local_funcs.get(name)
    if node is None:
        return None
    sc = None
    if project is not None and parent is not None:
        q = f"{parent.qualname}.<locals>.{name}"
        if q in project.funcs:
            sc = Scope(project, project.funcs[q])
    sub = Extractor(project, None, node, sc)
    env, ret = sub.run()
    return ret


# ---------------------------------------------------------------- inlining / partial evaluation
def rebuild_node(t):
    """Re-apply smart constructors after substitution (constant folding, flattening)."""
    k = t[0]
    if k == "op" and t[1] in ("+", "*"):
        items = list(t[2])
        acc = items[0]
        for x in items[1:]:
            acc = binop(t[1], acc, x)
        return acc
    if k == "bin":
        return binop(t[1], t[2], t[3])
    if k == "neg":
        return neg(t[1])
    if k == "ite":
        return ite(t[1], t[2], t[3])
    if k == "cmp":
        r = mk_cmp(t[1], t[2], t[3])
        return t if r == t else r
    if k in ("and", "or"):
        r = mk_bool(k, t[1])
        return t if r == t else r
    if k == "not":
        return mk_not(t[1])
    if k == "index":
        base, idx = t[1], t[2]
        if base[0] in ("tuple", "str") and is_num(idx) and isinstance(idx[1], int) and not isinstance(idx[1], bool) and -len(base[1]) <= idx[1] < len(base[1]):
            return base[1][idx[1]] if base[0] == "tuple" else ("str", base[1][idx[1]])
        if base[0] == "ite":
            return ite(base[1], rebuild_node(("index", base[2], idx)), rebuild_node(("index", base[3], idx)))
        if base[0] == "dict":
            out = ("keyerror",)
            for kv in reversed(base[1]):
                out = ite(mk_cmp("==", idx, kv[1][0]), kv[1][1], out)
            return out
        return t
    if k == "call" and isinstance(t[1], str):
        r = mk_call(t[1], t[2])
        return t if r == t else r
    if k == "method":
        r = mk_method(t[1], t[2], t[3])
        return t if r == t else r
    if k == "fstr":
        r = mk_fstr(list(t[1]))
        return t if r == t else r
    if k == "op" and t[1] in ("max", "min"):
        r = mk_minmax(t[1], list(t[2]))
        return t if r == t else r
    return t


def transform(t, f, memo=None):
    """Bottom-up rewrite with sharing preserved: f(node with rewritten children) -> node."""
    if memo is None:
        memo = {}
    if not isinstance(t, tuple) or not t or not isinstance(t[0], str):
        return t
    key = id(t)
    if key in memo:
        return memo[key][1]
    out = []
    for x in t:
        if isinstance(x, tuple) and x and isinstance(x[0], str):
            out.append(transform(x, f, memo))
        elif isinstance(x, tuple):
            out.append(tuple(transform(y, f, memo) if isinstance(y, tuple) and y and isinstance(y[0], str) else y for y in x))
        else:
            out.append(x)
    res = f(rebuild_node(tuple(out)))
    memo[key] = (t, res)
    return res


def substitute(t, mapping: Dict[str, tuple]):
    return transform(t, lambda n: mapping.get(n[1], n) if n[0] == "var" else n)


def inline_calls(t, resolver: Callable, depth: int = 0):
    """Replace ('call', name, args) by the callee's return expression when resolver(name) -> (params, ret)."""
    if depth > 10:
        return t

    def f(n):
        if n[0] == "call":
            r = resolver(n[1])
            if r is not None:
                params, ret = r[0], r[1]
                defaults = r[2] if len(r) > 2 else {}
                args = [a for a in n[2] if a[0] != "kw"]
                kws = {a[1]: a[2] for a in n[2] if a[0] == "kw"}
                if len(args) <= len(params):
                    mapping = {p: a for p, a in zip(params, args)}
                    mapping.update(kws)
                    for p in params:
                        if p not in mapping:
                            # omitted argument: the callee's default, never the caller's variable of the same name
                            mapping[p] = defaults.get(p, ("var", f"<omitted {p}>"))
                    body = substitute(ret, mapping)
                    return inline_calls(body, resolver, depth + 1)
        return n
    return transform(t, f)


def project_resolver(project: Project, exclude=()):
    """Resolver that inlines loop-free package functions (and the nested helpers of the function at hand)."""
    cache: Dict[str, Optional[tuple]] = {}

    def resolver(name):
        if name in cache:
            return cache[name]
        cache[name] = None
        if name in exclude or not isinstance(name, str) or name not in project.funcs:
            return None
        fi = project.funcs[name]
        try:
            ex = Extractor(project, fi, fi.node, Scope(project, fi), local_prefix=fi.qualname + ".<locals>.")
            env, ret = ex.run()
        except Unsupported:
            return None
        if ret is None:
            return None
        params = [p for p in fi.params()]
        defaults = {}
        for pn, d in fi.defaults().items():
            try:
                defaults[pn] = ex.ev(d, {})
            except Unsupported:
                pass
        cache[name] = (params, ret, defaults)
        return cache[name]
    return resolver


def reference(src: str, entry: str, call_map: Optional[Dict[str, str]] = None):
    """Extract ``entry`` from a reference snippet, inlining the snippet's own helper functions.
    call_map renames calls that should stay symbolic (reference name -> package qualname)."""
    tree = ast.parse(src)
    fns = {n.name: n for n in tree.body if isinstance(n, ast.FunctionDef)}
    cache = {}

    def resolver(name):
        if not isinstance(name, str) or not name.startswith("ref."):
            return None
        nm = name[4:]
        if nm not in fns or (call_map and nm in call_map):
            return None
        if nm not in cache:
            ex = Extractor(None, None, fns[nm], None)
            env, ret = ex.run()
            dfl = {}
            fa = fns[nm].args
            for a_, d_ in zip(fa.args[len(fa.args) - len(fa.defaults):], fa.defaults):
                dfl[a_.arg] = ex.ev(d_, {})
            cache[nm] = ([a.arg for a in fns[nm].args.args], ret, dfl)
        return cache[nm]
    ex = Extractor(None, None, fns[entry], None)
    env, ret = ex.run()
    ret = inline_calls(ret, resolver)
    if call_map:
        ret = transform(ret, lambda n: ("call", call_map[n[1][4:]], n[2]) if n[0] == "call" and isinstance(n[1], str) and n[1].startswith("ref.") and n[1][4:] in call_map else n)
    return ret
