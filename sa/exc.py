"""EXC: exception-escape analysis by abstract interpretation over abstract *types*.

A structured (syntax-directed) abstract interpreter for the Python subset the parser uses.
Values are sets of atoms
    'int' 'float' 'bool' 'str' 'none' 'other'  ('seq', frozenset(element atoms))  ('dict',)
Conditions narrow (isinstance / is None / len tests / membership, left-to-right inside and/or);
calls into the package are analysed context-sensitively (memoised on the abstract arguments), so
``raise TypeError`` behind ``isinstance`` ladders is reachable only if some caller can really
pass such a value. Every operation that can raise for the abstract operands records the
exception class; ``try`` filters what its handlers catch. The result for a region is the set of
(exception class, site) that may escape it.

Out of scope by stated assumption: numeric-domain exceptions (OverflowError for astronomically
large ints / inf, ZeroDivisionError), RecursionError, MemoryError.
"""
from __future__ import annotations

import ast
import builtins
from typing import Dict, FrozenSet, List, Optional, Set, Tuple

from .loader import AnalysisError, FuncInfo, Project, norm_text
from .resolve import Scope

NUM = frozenset({"int", "float", "bool"})
STR = frozenset({"str"})
NONE = frozenset({"none"})
BOOL = frozenset({"bool"})
OTHER = frozenset({"other"})
RAW_ELEM = frozenset({"int", "float", "bool", "str", "none"})


def seq(elems) -> FrozenSet:
    return frozenset({("seq", frozenset(elems))})


TOP = frozenset({"int", "float", "bool", "str", "none", "other", ("seq", frozenset({"int", "float", "bool", "str", "none", "other"})), ("dict",)})

STR_METHODS = {"strip": STR, "lstrip": STR, "rstrip": STR, "lower": STR, "upper": STR, "replace": STR, "title": STR,
               "startswith": BOOL, "endswith": BOOL, "find": frozenset({"int"}), "rfind": frozenset({"int"}), "index": frozenset({"int"}),
               "split": seq(STR), "rsplit": seq(STR), "splitlines": seq(STR), "join": STR, "format": STR, "isdigit": BOOL,
               "count": frozenset({"int"}), "partition": seq(STR), "rpartition": seq(STR), "removeprefix": STR, "removesuffix": STR, "isalpha": BOOL,
               "encode": OTHER, "zfill": STR, "casefold": STR, "capitalize": STR, "isnumeric": BOOL, "isspace": BOOL}
SEQ_METHODS = {"append", "extend", "copy", "index", "count", "insert", "pop", "sort", "reverse", "clear", "remove"}


def is_seq(a) -> bool:
    return isinstance(a, tuple) and a[0] == "seq"


def elems_of(av) -> FrozenSet:
    out = set()
    for a in av:
        if is_seq(a):
            out |= a[1]
        elif a == "str":
            out.add("str")
    return frozenset(out)


def exc_class(name: str):
    c = getattr(builtins, name, None)
    return c if isinstance(c, type) and issubclass(c, BaseException) else None


def caught_by(name: str, handler_names: Optional[Set[str]]) -> bool:
    if handler_names is None:
        return True
    c = exc_class(name)
    for h in handler_names:
        hc = exc_class(h)
        if hc is None:
            if h == name:
                return True
            continue
        if c is None:
            if hc in (Exception, BaseException):
                return True
            continue
        if issubclass(c, hc):
            return True
    return False


class Raised:
    __slots__ = ("cls", "site", "fi", "kind", "detail", "chain", "msg_ok")

    def __init__(self, cls, site, fi, kind, detail, chain, msg_ok=True):
        self.cls, self.site, self.fi, self.kind, self.detail, self.chain, self.msg_ok = cls, site, fi, kind, detail, chain, msg_ok

    def key(self):
        return (self.cls, id(self.site), self.kind)


class Env:
    def __init__(self, types=None, minlen=None, member=None):
        self.types: Dict[str, FrozenSet] = dict(types or {})
        self.minlen: Dict[str, int] = dict(minlen or {})     # text of a sequence expression -> proven minimum length
        self.member: Set[Tuple[str, str]] = set(member or ())  # (key text, container text) known `key in container`

    def copy(self):
        return Env(self.types, self.minlen, self.member)

    def kill(self, name: str):
        self.minlen = {k: v for k, v in self.minlen.items() if name not in _names(k)}
        self.member = {(a, b) for (a, b) in self.member if name not in _names(a) and name not in _names(b)}

    @staticmethod
    def join(envs: List["Env"]) -> Optional["Env"]:
        envs = [e for e in envs if e is not None]
        if not envs:
            return None
        out = Env()
        keys = set().union(*[set(e.types) for e in envs])
        for k in keys:
            av = frozenset()
            for e in envs:
                av |= e.types.get(k, frozenset({"unbound"}))
            out.types[k] = av
        lk = set.intersection(*[set(e.minlen) for e in envs])
        for k in lk:
            out.minlen[k] = min(e.minlen[k] for e in envs)
        out.member = set.intersection(*[set(e.member) for e in envs])
        return out

    def same(self, other: "Env") -> bool:
        return self.types == other.types and self.minlen == other.minlen and self.member == other.member


_NAME_CACHE: Dict[str, Set[str]] = {}


def _names(text: str) -> Set[str]:
    if text not in _NAME_CACHE:
        try:
            _NAME_CACHE[text] = {n.id for n in ast.walk(ast.parse(text, mode="eval")) if isinstance(n, ast.Name)}
        except SyntaxError:
            _NAME_CACHE[text] = set()
    return _NAME_CACHE[text]


class Interp:
    def __init__(self, project: Project):
        self.project = project
        self.memo: Dict[tuple, tuple] = {}
        self.stack: List[tuple] = []
        self.unknown_calls: Set[str] = set()
        self.functions_analysed: Set[str] = set()
        self.contexts = 0
        self.ops_checked = 0
        self.attr_types: Dict[str, FrozenSet] = {}   # attribute name -> abstract type (for objects of repo classes)
        self.ret_noinf: Dict[str, bool] = {}         # function -> no returned float is +-inf, provided the arguments carry none
        self.ret_noinf_strict: Dict[str, bool] = {}  # function -> no returned float is +-inf, whatever the arguments

    # ------------------------------------------------------------------ function level
    def call_function(self, fi: FuncInfo, args: Dict[str, FrozenSet], chain: tuple) -> Tuple[FrozenSet, List[Raised]]:
        """Analyse fi under abstract parameter types; returns (return type, escaping exceptions)."""
        key = (fi.qualname, tuple(sorted(args.items())))
        if key in self.memo:
            return self.memo[key]
        if key in self.stack or len(self.stack) > 30:
            return TOP, []
        self.stack.append(key)
        self.functions_analysed.add(fi.qualname)
        self.contexts += 1
        env = Env()
        for p in fi.params():
            if p in args:
                env.types[p] = args[p]
            else:
                d = fi.defaults().get(p)
                env.types[p] = self.const_type(d) if d is not None else TOP
        for p in fi.params():
            env.member.add(("noinfA__", p))         # summaries are relative to "the arguments carry no inf"
        fr = Frame(self, fi, chain + (fi.short,))
        fr.block(fi.node.body, env)
        ret = frozenset().union(*fr.returns) if fr.returns else frozenset()     # (a function that always raises returns nothing at all)
        if fr.falls_off or (not fr.returns and not fr.escaped):
            ret |= NONE
        self.stack.pop()
        self.memo[key] = (ret, fr.escaped)
        return self.memo[key]

    @staticmethod
    def const_type(node) -> FrozenSet:
        if isinstance(node, ast.Constant):
            v = node.value
            if v is None:
                return NONE
            if isinstance(v, bool):
                return BOOL
            if isinstance(v, int):
                return frozenset({"int"})
            if isinstance(v, float):
                return frozenset({"float"})
            if isinstance(v, str):
                return STR
            return OTHER
        if isinstance(node, (ast.Tuple, ast.List)):
            el = set()
            for e in node.elts:
                el |= Interp.const_type(e)
            return seq(el)
        return TOP


class Frame:
    def __init__(self, interp: Interp, fi: FuncInfo, chain: tuple):
        self.I = interp
        self.fi = fi
        self.scope = Scope(interp.project, fi)
        self.chain = chain
        self.returns: List[FrozenSet] = []
        self.falls_off = False
        self.escaped: List[Raised] = []
        self.sinks: List[List[Raised]] = [self.escaped]   # innermost try collector last
        self.local_funcs: Dict[str, ast.AST] = {}

    # ------------------------------------------------------------------ exceptions
    def throw(self, cls: str, site: ast.AST, kind: str, detail: str, msg_ok=True):
        self.sinks[-1].append(Raised(cls, site, self.fi, kind, detail, self.chain, msg_ok))

    # ------------------------------------------------------------------ statements
    def block(self, stmts, env: Optional[Env]) -> Optional[Env]:
        for st in stmts:
            if env is None:
                return None
            env = self.stmt(st, env)
        if env is not None and stmts is self.fi.node.body:
            self.falls_off = True
        return env

    def assign(self, target: ast.AST, av: FrozenSet, env: Env, site: ast.AST):
        if isinstance(target, ast.Name):
            env.kill(target.id)
            env.types[target.id] = av
        elif isinstance(target, (ast.Tuple, ast.List)):
            self.I.ops_checked += 1
            bad = [a for a in av if not (is_seq(a) or a == "str")]
            if bad:
                self.throw("TypeError", site, "implicit", f"cannot unpack non-iterable {sorted(map(str, bad))}")
            self.throw("ValueError", site, "implicit", "unpacking length mismatch")
            el = elems_of(av) or TOP
            for t in target.elts:
                self.assign(t, el, env, site)
        elif isinstance(target, (ast.Subscript, ast.Attribute)):
            self.ev(target.value, env)
        elif isinstance(target, ast.Starred):
            self.assign(target.value, seq(av), env, site)

    def stmt(self, st: ast.stmt, env: Env) -> Optional[Env]:
        if isinstance(st, ast.Expr):
            self.ev(st.value, env)
            return env
        if isinstance(st, ast.Assign):
            av = self.ev(st.value, env)
            ni = self.noinf(st.value, env)
            nia = ni or self.noinf(st.value, env, 0, False)
            # remember proven lengths of displays
            for t in st.targets:
                self.assign(t, av, env, st)
                if nia:
                    for nm in ([t] if isinstance(t, ast.Name) else [x for x in getattr(t, "elts", []) if isinstance(x, ast.Name)]):
                        env.member.add(("noinf__" if ni else "noinfA__", nm.id))
                if isinstance(t, ast.Name):
                    if isinstance(st.value, (ast.Tuple, ast.List)) and not any(isinstance(e, ast.Starred) for e in st.value.elts):
                        env.minlen[t.id] = len(st.value.elts)
                    if isinstance(st.value, ast.Call) and self.scope.resolve(st.value.func) == "builtins.len" and st.value.args:
                        env.minlen.setdefault("=len:" + t.id, 0)
                        env.types[t.id] = frozenset({"int"})
                        env.member.add(("lenof", f"{t.id}={norm_text(st.value.args[0])}"))
            return env
        if isinstance(st, ast.AnnAssign):
            if st.value is not None:
                self.assign(st.target, self.ev(st.value, env), env, st)
            return env
        if isinstance(st, ast.AugAssign):
            cur = self.ev(ast.copy_location(ast.Name(id=st.target.id, ctx=ast.Load()), st.target), env) if isinstance(st.target, ast.Name) else self.ev(st.target, env)
            rhs = self.ev(st.value, env)
            res = self.binop(st.op, cur, rhs, st)
            if isinstance(st.target, ast.Name):
                tn = ast.Name(id=st.target.id, ctx=ast.Load())
                ni = self.noinf(tn, env) and self.noinf(st.value, env)
                nia = ni or (self.noinf(tn, env, 0, False) and self.noinf(st.value, env, 0, False))
                self.assign(st.target, res, env, st)
                if nia:
                    env.member.add(("noinf__" if ni else "noinfA__", st.target.id))
            return env
        if isinstance(st, ast.Return):
            self.returns.append(self.ev(st.value, env) if st.value is not None else NONE)
            if st.value is not None:
                self.I.ret_noinf[self.fi.qualname] = self.I.ret_noinf.get(self.fi.qualname, True) and self.noinf(st.value, env, 0, False)
                self.I.ret_noinf_strict[self.fi.qualname] = self.I.ret_noinf_strict.get(self.fi.qualname, True) and self.noinf(st.value, env, 0, True)
            return None
        if isinstance(st, ast.Raise):
            self.do_raise(st, env)
            return None
        if isinstance(st, ast.If):
            self.ev_cond_effects(st.test, env)
            t_env = self.narrow(st.test, env.copy(), True)
            f_env = self.narrow(st.test, env.copy(), False)
            a = self.block(st.body, t_env) if t_env is not None else None
            b = self.block(st.orelse, f_env) if f_env is not None else None
            return Env.join([a, b])
        if isinstance(st, ast.For):
            it = self.ev(st.iter, env)
            self.I.ops_checked += 1
            bad = [a for a in it if not (is_seq(a) or a in ("str", "other") or a == ("dict",))]
            if bad:
                self.throw("TypeError", st.iter, "implicit", f"iteration over non-iterable {sorted(map(str, bad))}")
            el = elems_of(it) or TOP
            if isinstance(st.iter, (ast.Tuple, ast.List)) and 0 < len(st.iter.elts) <= 8 and isinstance(st.target, ast.Name) and not st.orelse \
                    and not any(isinstance(x, ast.Name) and isinstance(x.ctx, ast.Store) and x.id == st.target.id for b in st.body for x in ast.walk(b)):
                return self.unrolled_for(st, env)
            cur = env
            out_envs = [env.copy()]
            for _ in range(4):
                body_env = cur.copy()
                self.assign(st.target, el, body_env, st)
                self._breaks = getattr(self, "_breaks", [])
                self._breaks.append([])
                self._continues = getattr(self, "_continues", [])
                self._continues.append([])
                end = self.block(st.body, body_env)
                brk = self._breaks.pop()
                cont = self._continues.pop()
                nxt = Env.join([end] + cont + [cur])
                out_envs += brk
                if nxt is None or nxt.same(cur):
                    cur = nxt or cur
                    break
                cur = nxt
            out_envs.append(cur)
            res = Env.join(out_envs)
            if st.orelse:
                res = self.block(st.orelse, res)
            return res
        if isinstance(st, ast.While):
            cur = env
            out_envs = []
            for _ in range(4):
                self.ev_cond_effects(st.test, cur)
                t_env = self.narrow(st.test, cur.copy(), True)
                f_env = self.narrow(st.test, cur.copy(), False)
                out_envs.append(f_env)
                self._breaks = getattr(self, "_breaks", [])
                self._breaks.append([])
                self._continues = getattr(self, "_continues", [])
                self._continues.append([])
                end = self.block(st.body, t_env) if t_env is not None else None
                out_envs += self._breaks.pop()
                cont = self._continues.pop()
                nxt = Env.join([end] + cont + [cur])
                if nxt is None or nxt.same(cur):
                    break
                cur = nxt
            return Env.join(out_envs)
        if isinstance(st, ast.Break):
            self._breaks[-1].append(env.copy())
            return None
        if isinstance(st, ast.Continue):
            self._continues[-1].append(env.copy())
            return None
        if isinstance(st, ast.Try):
            return self.do_try(st, env)
        if isinstance(st, ast.With):
            for item in st.items:
                av = self.ev(item.context_expr, env)
                if item.optional_vars is not None:
                    self.assign(item.optional_vars, OTHER, env, st)
            return self.block(st.body, env)
        if isinstance(st, (ast.FunctionDef, ast.AsyncFunctionDef)):
            self.local_funcs[st.name] = st
            env.types[st.name] = OTHER
            return env
        if isinstance(st, (ast.Import, ast.ImportFrom, ast.Pass, ast.Global, ast.Nonlocal)):
            return env
        if isinstance(st, ast.Assert):
            self.ev(st.test, env)
            self.throw("AssertionError", st, "explicit", "assert")
            return self.narrow(st.test, env, True)
        if isinstance(st, ast.Delete):
            return env
        raise AnalysisError(f"{self.fi.module.relpath}:{st.lineno}: EXC cannot read statement {type(st).__name__}")

    def unrolled_for(self, st: ast.For, env: Env) -> Optional[Env]:
        """``for v in (a, b, c): ...`` over a literal display: run the body once per element, in order;
        what the body learns about v (e.g. `if not isinstance(v, T): raise`) is learnt about that element."""
        cur: Optional[Env] = env
        outs: List[Optional[Env]] = []
        tname = st.target.id
        for elt in st.iter.elts:
            if cur is None:
                break
            body_env = cur.copy()
            body_env.kill(tname)
            body_env.types[tname] = self.ev(elt, body_env)
            self._breaks = getattr(self, "_breaks", [])
            self._breaks.append([])
            self._continues = getattr(self, "_continues", [])
            self._continues.append([])
            end = self.block(st.body, body_env)
            outs += self._breaks.pop()
            nxt = Env.join([end] + self._continues.pop())
            if nxt is not None and isinstance(elt, ast.Name) and elt.id in nxt.types and tname in nxt.types \
                    and not any(isinstance(x, ast.Name) and isinstance(x.ctx, ast.Store) and x.id == elt.id for b in st.body for x in ast.walk(b)):
                narrowed = nxt.types[elt.id] & nxt.types[tname]
                if narrowed:
                    nxt.types[elt.id] = narrowed
            cur = nxt
        outs.append(cur)
        return Env.join(outs)

    def do_raise(self, st: ast.Raise, env: Env):
        if st.exc is None:
            # bare re-raise of what the enclosing handler caught
            for r in getattr(self, "_handling", [[]])[-1] if getattr(self, "_handling", None) else []:
                self.sinks[-1].append(r)
            if not getattr(self, "_handling", None):
                self.throw("RuntimeError", st, "explicit", "bare raise outside handler")
            return
        exc = st.exc
        cls = None
        msg_ok = True
        if isinstance(exc, ast.Call):
            cls = self.class_name(exc.func)
            for a in exc.args:
                self.ev(a, env)
            if not exc.args:
                msg_ok = False
            else:
                a0 = exc.args[0]
                if isinstance(a0, ast.Constant) and not (isinstance(a0.value, str) and a0.value.strip()):
                    msg_ok = False
        elif isinstance(exc, ast.Name):
            cls = self.class_name(exc)
            if cls and exc_class(cls) is not None:
                msg_ok = False     # `raise ValueError` with no message
            else:
                # re-raising a caught exception object bound to a name
                bound = [r for r in (getattr(self, "_handling", [[]]) or [[]])[-1]] if getattr(self, "_handling", None) else []
                if bound:
                    for r in bound:
                        self.sinks[-1].append(r)
                    return
        if cls is None:
            cls = "Exception"
        self.throw(cls, st, "explicit", norm_text(st)[:100], msg_ok)

    def class_name(self, e: ast.AST) -> Optional[str]:
        if isinstance(e, ast.Name):
            return e.id
        if isinstance(e, ast.Attribute):
            return e.attr
        return None

    def do_try(self, st: ast.Try, env: Env) -> Optional[Env]:
        collector: List[Raised] = []
        self.sinks.append(collector)
        start = env.copy()
        end = self.block(st.body, env.copy())
        self.sinks.pop()
        if st.orelse and end is not None:
            end = self.block(st.orelse, end)
        outs = [end]
        remaining = list(collector)
        for h in st.handlers:
            from .cfg import handler_names
            names = handler_names(h)
            caught = [r for r in remaining if caught_by(r.cls, names)]
            remaining = [r for r in remaining if not caught_by(r.cls, names)]
            henv = Env.join([start, end]) or start.copy()
            if h.name:
                henv.types[h.name] = OTHER
            self._handling = getattr(self, "_handling", [])
            self._handling.append(caught)
            outs.append(self.block(h.body, henv))
            self._handling.pop()
        for r in remaining:
            self.sinks[-1].append(r)
        if st.finalbody:
            res = Env.join(outs)
            return self.block(st.finalbody, res) if res is not None else None
        return Env.join(outs)

    # ------------------------------------------------------------------ narrowing
    def ev_cond_effects(self, test: ast.AST, env: Env):
        """Evaluate a condition for its possible exceptions, honouring short-circuit narrowing."""
        self.ev(test, env)

    def narrow(self, test: ast.AST, env: Optional[Env], truth: bool) -> Optional[Env]:
        if env is None:
            return None
        if isinstance(test, ast.UnaryOp) and isinstance(test.op, ast.Not):
            return self.narrow(test.operand, env, not truth)
        if isinstance(test, ast.BoolOp):
            conj = isinstance(test.op, ast.And)
            if conj == truth:
                # all operands have the given truth
                for v in test.values:
                    env = self.narrow(v, env, truth)
                    if env is None:
                        return None
                return env
            # at least one operand has the opposite truth: join of alternatives
            alts = []
            cur = env
            for v in test.values:
                alts.append(self.narrow(v, cur.copy(), truth))
                cur = self.narrow(v, cur, not truth)
                if cur is None:
                    break
            return Env.join(alts)
        if isinstance(test, ast.Call) and len(test.args) == 1 and isinstance(test.args[0], (ast.Tuple, ast.List)) and not test.keywords \
                and ((truth and self.scope.resolve_call(test) == "builtins.all") or (not truth and self.scope.resolve_call(test) == "builtins.any")):
            # all((c1, c2, c3)) holds / any((c1, c2, c3)) fails: every element has that truth value
            for c in test.args[0].elts:
                env = self.narrow(c, env, truth)
                if env is None:
                    return None
            return env
        if truth and isinstance(test, ast.Call) and self.scope.resolve_call(test) == "builtins.all" and len(test.args) == 1 and isinstance(test.args[0], (ast.GeneratorExp, ast.ListComp)) \
                and len(test.args[0].generators) == 1 and isinstance(test.args[0].generators[0].target, ast.Name) and not test.args[0].generators[0].ifs:
            # all(isinstance(v, int) and 0 <= v <= 255 for v in X) holds: every element of X is bounded
            g = test.args[0].generators[0]
            v = g.target.id
            conj = test.args[0].elt.values if isinstance(test.args[0].elt, ast.BoolOp) and isinstance(test.args[0].elt.op, ast.And) else [test.args[0].elt]
            bounded = any(isinstance(c, ast.Compare) and len(c.ops) == 2 and isinstance(c.comparators[0], ast.Name) and c.comparators[0].id == v
                          and all(isinstance(k, ast.Constant) and isinstance(k.value, (int, float)) for k in (c.left, c.comparators[1])) for c in conj)
            only_int = any(isinstance(c, ast.Call) and self.scope.resolve_call(c) == "builtins.isinstance" and len(c.args) == 2 and isinstance(c.args[0], ast.Name) and c.args[0].id == v
                           and isinstance(c.args[1], ast.Name) and c.args[1].id in ("int", "bool") for c in conj)
            if bounded or only_int:
                if isinstance(g.iter, (ast.Tuple, ast.List)):
                    for x in g.iter.elts:
                        env.member.add(("noinf__", norm_text(x)))
                else:
                    env.member.add(("noinf__", norm_text(g.iter)))
            return env
        if isinstance(test, ast.Call):
            q = self.scope.resolve(test.func)
            if q == "builtins.isinstance" and len(test.args) == 2 and isinstance(test.args[0], ast.Name):
                name = test.args[0].id
                atoms = self.isinstance_atoms(test.args[1])
                if atoms is not None and name in env.types:
                    cur = env.types[name]
                    keep = frozenset(a for a in cur if self.atom_matches(a, atoms))
                    new = keep if truth else cur - keep
                    if not new:
                        return None
                    env.types[name] = new
                return env
            return env
        if isinstance(test, ast.Compare) and len(test.ops) == 2 and truth and all(isinstance(o, (ast.Lt, ast.LtE, ast.Gt, ast.GtE)) for o in test.ops) \
                and all(isinstance(c, ast.Constant) and isinstance(c.value, (int, float)) and not isinstance(c.value, bool) for c in (test.left, test.comparators[1])):
            # c1 <= x <= c2 holds: x is bounded on both sides (and not NaN)
            subj = test.comparators[0]
            env.member.add(("noinf__", norm_text(subj)))
            if isinstance(subj, ast.Call) and self.scope.resolve_call(subj) == "builtins.float" and subj.args:
                env.member.add(("noinf__", norm_text(subj.args[0])))
            return env
        if isinstance(test, ast.Compare) and len(test.ops) == 1 and isinstance(test.ops[0], (ast.Lt, ast.LtE, ast.Gt, ast.GtE, ast.Eq)) \
                and isinstance(test.comparators[0], ast.Constant) and isinstance(test.comparators[0].value, (int, float)) and not isinstance(test.comparators[0].value, bool) \
                and not isinstance(test.left, ast.Constant) and self.len_subject(test.left, env) is None:
            # one-sided bounds accumulate: x >= c1 and x <= c2 together bound x
            o = type(test.ops[0])
            if not truth:
                o = {ast.Lt: ast.GtE, ast.GtE: ast.Lt, ast.Gt: ast.LtE, ast.LtE: ast.Gt, ast.Eq: None}.get(o)
            txt = norm_text(test.left)
            if o is ast.Eq:
                env.member.add(("noinf__", txt))
            elif o in (ast.Lt, ast.LtE):
                env.member.add(("ub__", txt))
            elif o in (ast.Gt, ast.GtE):
                env.member.add(("lb__", txt))
            if ("ub__", txt) in env.member and ("lb__", txt) in env.member:
                env.member.add(("noinf__", txt))
            return env
        if isinstance(test, ast.Compare) and len(test.ops) == 1:
            op = test.ops[0]
            l, r = test.left, test.comparators[0]
            if isinstance(op, (ast.Is, ast.IsNot, ast.Eq, ast.NotEq)) and isinstance(r, ast.Constant) and r.value is None and isinstance(l, ast.Name) and l.id in env.types:
                is_none = isinstance(op, (ast.Is, ast.Eq)) == truth
                cur = env.types[l.id]
                new = cur & NONE if is_none else cur - NONE
                if not new:
                    return None
                env.types[l.id] = new
                return env
            # length tests
            ln = self.len_subject(l, env)
            if ln is not None and isinstance(r, ast.Constant) and isinstance(r.value, int):
                k = r.value
                o = type(op)
                if not truth:
                    o = {ast.Eq: ast.NotEq, ast.NotEq: ast.Eq, ast.Lt: ast.GtE, ast.GtE: ast.Lt, ast.Gt: ast.LtE, ast.LtE: ast.Gt}.get(o, None)
                if o is ast.Eq or o is ast.GtE:
                    env.minlen[ln] = max(env.minlen.get(ln, 0), k)
                elif o is ast.Gt:
                    env.minlen[ln] = max(env.minlen.get(ln, 0), k + 1)
                elif o is ast.NotEq and env.minlen.get(ln, 0) == k:
                    env.minlen[ln] = k + 1          # at least k and not k
                return env
            if isinstance(op, (ast.In, ast.NotIn)):
                if isinstance(op, ast.In) == truth:
                    env.member.add((norm_text(l), norm_text(r)))
                return env
        if isinstance(test, ast.Name) and test.id in env.types:
            cur = env.types[test.id]
            if truth:
                new = cur - NONE
            else:
                new = cur
            if not new:
                return None
            env.types[test.id] = new
            if truth and any(is_seq(a) or a == "str" for a in new) and not (new & NUM):
                env.minlen[test.id] = max(env.minlen.get(test.id, 0), 1)
            return env
        return env

    def len_subject(self, e: ast.AST, env: Env) -> Optional[str]:
        if isinstance(e, ast.Call) and self.scope.resolve(e.func) == "builtins.len" and len(e.args) == 1:
            return norm_text(e.args[0])
        if isinstance(e, ast.Name):
            for (a, b) in env.member:
                if a == "lenof" and b.startswith(e.id + "="):
                    return b.split("=", 1)[1]
        return None

    def isinstance_atoms(self, t: ast.AST) -> Optional[Set[str]]:
        names = []
        if isinstance(t, ast.Tuple):
            for e in t.elts:
                if not isinstance(e, ast.Name):
                    return None
                names.append(e.id)
        elif isinstance(t, ast.Name):
            names.append(t.id)
        else:
            return None
        out = set()
        for n in names:
            out |= {"str": {"str"}, "int": {"int", "bool"}, "float": {"float"}, "bool": {"bool"}, "tuple": {"seq"}, "list": {"seq"},
                    "dict": {"dict"}, "bytes": {"other"}, "complex": {"other"}}.get(n, {"other"})
        return out

    @staticmethod
    def atom_matches(a, atoms: Set[str]) -> bool:
        if is_seq(a):
            return "seq" in atoms
        if a == ("dict",):
            return "dict" in atoms
        return a in atoms

    # ------------------------------------------------------------------ expressions
    def ev(self, e: Optional[ast.AST], env: Env) -> FrozenSet:
        if e is None:
            return NONE
        I = self.I
        if isinstance(e, ast.Constant):
            return Interp.const_type(e)
        if isinstance(e, ast.NamedExpr) and isinstance(e.target, ast.Name):
            t = self.ev(e.value, env)
            env.types[e.target.id] = t          # (n := f(x)): the value, and n bound to it from here on
            env.member = {m for m in env.member if not (isinstance(m, tuple) and len(m) == 2 and m[1] == e.target.id)}
            return t
        if isinstance(e, ast.Name):
            if e.id in env.types:
                return env.types[e.id] - {"unbound"} or TOP
            q = self.scope.resolve_name(e.id)
            if q:
                mod, _, nm = q.rpartition(".")
                m = I.project.modules.get(mod)
                if m and nm in m.top_assigns:
                    v = m.top_assigns[nm]
                    if isinstance(v, ast.Dict):
                        return frozenset({("dict",)})
                    return Interp.const_type(v) if isinstance(v, (ast.Constant, ast.Tuple, ast.List)) else OTHER
            return OTHER
        if isinstance(e, (ast.Tuple, ast.List, ast.Set)):
            el = set()
            for x in e.elts:
                el |= self.ev(x.value if isinstance(x, ast.Starred) else x, env)
            return seq(el)
        if isinstance(e, ast.Dict):
            for k, v in zip(e.keys, e.values):
                if k is not None:
                    self.ev(k, env)
                self.ev(v, env)
            return frozenset({("dict",)})
        if isinstance(e, ast.JoinedStr):
            for v in e.values:
                if isinstance(v, ast.FormattedValue):
                    av = self.ev(v.value, env)
                    if v.format_spec is not None:
                        I.ops_checked += 1
                        spec = "".join(x.value for x in v.format_spec.values if isinstance(x, ast.Constant))
                        if spec and spec[-1] in "xXdbonc":
                            bad = av - frozenset({"int", "bool"})
                            if bad & {"none"} or any(is_seq(a) for a in bad):
                                self.throw("TypeError", v, "implicit", f"format spec {spec!r} on {sorted(map(str, bad))}")
                            elif bad:
                                self.throw("ValueError", v, "implicit", f"format spec {spec!r} on {sorted(map(str, bad))}")
            return STR
        if isinstance(e, ast.BoolOp):
            cur = env.copy()
            out = frozenset()
            conj = isinstance(e.op, ast.And)
            for v in e.values:
                if cur is None:
                    break
                out |= self.ev(v, cur)
                cur = self.narrow(v, cur, conj)
            return out
        if isinstance(e, ast.UnaryOp):
            av = self.ev(e.operand, env)
            if isinstance(e.op, ast.Not):
                return BOOL
            I.ops_checked += 1
            bad = av - NUM
            if bad - OTHER:
                self.throw("TypeError", e, "implicit", f"unary operator on {sorted(map(str, bad))}")
            return av & NUM or NUM
        if isinstance(e, ast.BinOp):
            return self.binop(e.op, self.ev(e.left, env), self.ev(e.right, env), e)
        if isinstance(e, ast.Compare):
            left = self.ev(e.left, env)
            cur_env = env
            for op, comp in zip(e.ops, e.comparators):
                right = self.ev(comp, cur_env)
                self.compare(op, left, right, e, e.left if left is not None else e, comp)
                left = right
            return BOOL
        if isinstance(e, ast.IfExp):
            self.ev(e.test, env)
            t = self.narrow(e.test, env.copy(), True)
            f = self.narrow(e.test, env.copy(), False)
            out = frozenset()
            if t is not None:
                out |= self.ev(e.body, t)
            if f is not None:
                out |= self.ev(e.orelse, f)
            return out
        if isinstance(e, ast.Subscript):
            return self.subscript(e, env)
        if isinstance(e, ast.Attribute):
            base = self.ev(e.value, env)
            q = self.scope.resolve(e)
            if q:
                return OTHER
            I.ops_checked += 1
            if e.attr == "__name__":
                return STR
            if e.attr in I.attr_types and (base & OTHER):
                return I.attr_types[e.attr]
            bad = base & (NONE | NUM)
            if bad and not (base & OTHER and not (base - OTHER - bad)):
                if e.attr not in ("real", "imag", "numerator", "denominator") or (base & NONE):
                    self.throw("AttributeError", e, "implicit", f"attribute .{e.attr} on {sorted(map(str, base & (NONE | NUM)))}")
            return TOP if base & OTHER else OTHER
        if isinstance(e, ast.Call):
            return self.call(e, env)
        if isinstance(e, (ast.ListComp, ast.SetComp, ast.GeneratorExp, ast.DictComp)):
            cur = env.copy()
            for g in e.generators:
                it = self.ev(g.iter, cur)
                I.ops_checked += 1
                bad = [a for a in it if not (is_seq(a) or a in ("str", "other") or a == ("dict",))]
                if bad:
                    self.throw("TypeError", g.iter, "implicit", f"iteration over non-iterable {sorted(map(str, bad))}")
                self.assign(g.target, elems_of(it) or TOP, cur, e)
                for c in g.ifs:
                    self.ev(c, cur)
                    cur = self.narrow(c, cur, True) or cur
            if isinstance(e, ast.DictComp):
                self.ev(e.key, cur)
                self.ev(e.value, cur)
                return frozenset({("dict",)})
            return seq(self.ev(e.elt, cur))
        if isinstance(e, ast.Lambda):
            return OTHER
        if isinstance(e, ast.Starred):
            return self.ev(e.value, env)
        if isinstance(e, ast.Slice):
            return OTHER
        raise AnalysisError(f"{self.fi.module.relpath}:{getattr(e, 'lineno', 0)}: EXC cannot read expression {type(e).__name__}")

    def binop(self, op, a: FrozenSet, b: FrozenSet, site) -> FrozenSet:
        self.I.ops_checked += 1
        out = set()
        bad = []
        for x in a:
            for y in b:
                if x == "other" or y == "other":
                    out |= {"other"}
                    continue
                xn, yn = x in NUM, y in NUM
                if xn and yn:
                    if isinstance(op, ast.Div):
                        out.add("float")
                    elif "float" in (x, y) or isinstance(op, ast.Pow):
                        out |= {"float", "int"} if isinstance(op, ast.Pow) else {"float"}
                    else:
                        out.add("int")
                    continue
                if x == "str" and y == "str" and isinstance(op, ast.Add):
                    out.add("str")
                    continue
                if isinstance(op, ast.Mult) and ((x == "str" and y in ("int", "bool")) or (y == "str" and x in ("int", "bool"))):
                    out.add("str")
                    continue
                if isinstance(op, ast.Mult) and ((is_seq(x) and y in ("int", "bool")) or (is_seq(y) and x in ("int", "bool"))):
                    out.add(x if is_seq(x) else y)
                    continue
                if isinstance(op, ast.Mod) and x == "str":
                    out.add("str")
                    continue
                if is_seq(x) and is_seq(y) and isinstance(op, ast.Add):
                    out.add(("seq", x[1] | y[1]))
                    continue
                bad.append((x, y))
        if bad:
            self.throw("TypeError", site, "implicit", f"operator {type(op).__name__} on operand types {sorted({(str(x), str(y)) for x, y in bad})[:4]}")
        return frozenset(out) or NUM

    def compare(self, op, a: FrozenSet, b: FrozenSet, site, lnode, rnode):
        self.I.ops_checked += 1
        if isinstance(op, (ast.Eq, ast.NotEq, ast.Is, ast.IsNot)):
            return
        if isinstance(op, (ast.In, ast.NotIn)):
            bad = [y for y in b if not (is_seq(y) or y in ("str", "other") or y == ("dict",))]
            if bad:
                self.throw("TypeError", site, "implicit", f"membership test in non-container {sorted(map(str, bad))}")
            if "str" in b and (a - STR - OTHER):
                if not (b - STR):
                    self.throw("TypeError", site, "implicit", f"'in <str>' with left operand {sorted(map(str, a - STR))}")
            if ("dict",) in b and any(is_seq(x) for x in a):
                self.throw("TypeError", site, "implicit", "unhashable key in dict membership test")
            return
        bad = []
        for x in a:
            for y in b:
                if x == "other" or y == "other":
                    continue
                if x in NUM and y in NUM:
                    continue
                if x == "str" and y == "str":
                    continue
                if is_seq(x) and is_seq(y):
                    continue
                bad.append((x, y))
        if bad:
            self.throw("TypeError", site, "implicit", f"ordering comparison between {sorted({(str(x), str(y)) for x, y in bad})[:4]}")

    def subscript(self, e: ast.Subscript, env: Env) -> FrozenSet:
        base = self.ev(e.value, env)
        self.I.ops_checked += 1
        bad = base & (NONE | NUM)
        if bad:
            self.throw("TypeError", e, "implicit", f"subscript on {sorted(map(str, bad))}")
        if isinstance(e.slice, ast.Slice):
            for part in (e.slice.lower, e.slice.upper, e.slice.step):
                if part is not None:
                    self.ev(part, env)
            return frozenset(a for a in base if is_seq(a) or a == "str") or TOP
        idx = self.ev(e.slice, env)
        if ("dict",) in base:
            key = norm_text(e.slice)
            cont = norm_text(e.value)
            if (key, cont) not in env.member and not isinstance(e.slice, ast.Constant):
                self.throw("KeyError", e, "implicit", f"{cont}[{key}] without a dominating `{key} in {cont}` test")
            if base == frozenset({("dict",)}):
                return TOP if not self.dict_values_str(e.value) else STR
        if any(is_seq(a) or a == "str" for a in base):
            subject = norm_text(e.value)
            need = None
            if isinstance(e.slice, ast.Constant) and isinstance(e.slice.value, int):
                k = e.slice.value
                need = k + 1 if k >= 0 else -k
            have = env.minlen.get(subject, 0)
            if isinstance(e.value, ast.Call) and isinstance(e.value.func, ast.Attribute) and e.value.func.attr in ("partition", "rpartition") and any(a == "str" for a in self.ev(e.value.func.value, env)):
                have = max(have, 3)         # str.partition / rpartition always return a 3-tuple
            if need is None or have < need:
                self.throw("IndexError", e, "implicit", f"{subject}[{norm_text(e.slice)}] without a dominating length test (proven minimum length {env.minlen.get(subject, 0)})")
        return elems_of(base) or TOP

    def dict_values_str(self, e: ast.AST) -> bool:
        q = self.scope.resolve(e)
        if not q:
            return False
        mod, _, nm = q.rpartition(".")
        m = self.I.project.modules.get(mod)
        v = m.top_assigns.get(nm) if m else None
        return isinstance(v, ast.Dict) and all(isinstance(x, ast.Constant) and isinstance(x.value, str) for x in v.values)

    # ------------------------------------------------------------------ floats that cannot be infinite
    def noinf(self, e: ast.AST, env: Env, depth: int = 0, strict: bool = True) -> bool:
        """The value of e is not +-inf (an int, a finite float or NaN): int()/round() of it cannot raise OverflowError.
        Assumption: arithmetic on bounded operands does not overflow to inf."""
        if depth > 12:
            return False
        if isinstance(e, ast.Constant):
            return not (isinstance(e.value, float) and e.value in (float("inf"), float("-inf")))
        if ("noinf__", norm_text(e)) in env.member or (not strict and ("noinfA__", norm_text(e)) in env.member):
            return True
        if isinstance(e, ast.Name):
            t = env.types.get(e.id)
            return t is not None and "float" not in t and not any(is_seq(a) for a in t) and "other" not in t and "str" not in t
        if isinstance(e, (ast.Tuple, ast.List)):
            return all(self.noinf(x, env, depth + 1, strict) for x in e.elts)
        if isinstance(e, ast.UnaryOp):
            return self.noinf(e.operand, env, depth + 1, strict)
        if isinstance(e, ast.IfExp):
            return self.noinf(e.body, env, depth + 1, strict) and self.noinf(e.orelse, env, depth + 1, strict)
        if isinstance(e, ast.BinOp):
            if isinstance(e.op, ast.Mod):
                return self.noinf(e.right, env, depth + 1, strict)      # inf % c is NaN, x % c is bounded by c
            return self.noinf(e.left, env, depth + 1, strict) and self.noinf(e.right, env, depth + 1, strict)
        if isinstance(e, ast.Subscript):
            bt = self.types_quiet(e.value, env)
            if bt and all((is_seq(a) and "float" not in a[1] and "other" not in a[1] and "str" not in a[1]) for a in bt):
                return True
            return ("noinf__", norm_text(e.value)) in env.member or (not strict and ("noinfA__", norm_text(e.value)) in env.member)      # every element of a sequence known free of inf
        if isinstance(e, ast.Call):
            q = self.scope.resolve_call(e)
            if q in ("builtins.int", "builtins.round", "builtins.len", "builtins.bool", "builtins.ord"):
                return True
            if q in ("builtins.abs",) and e.args:
                return self.noinf(e.args[0], env, depth + 1, strict)
            if q == "builtins.float" and e.args:
                at = self.types_quiet(e.args[0], env)
                return self.noinf(e.args[0], env, depth + 1, strict) and at is not None and "str" not in at      # float("inf") / float("1e999") are inf
            if q in ("builtins.max", "builtins.min") and len(e.args) >= 2:
                if all(self.noinf(a, env, depth + 1, strict) for a in e.args):
                    return True
                # clamp: max(a, min(b, x)) / min(b, max(a, x)) is bounded on both sides when both bounds carry no inf
                inner = [a for a in e.args if isinstance(a, ast.Call) and self.scope.resolve_call(a) in ("builtins.max", "builtins.min") and self.scope.resolve_call(a) != q]
                outer_bounds = [a for a in e.args if a not in inner]
                if len(inner) == 1 and len(e.args) == 2 and outer_bounds and self.noinf(outer_bounds[0], env, depth + 1, strict) \
                        and len(inner[0].args) == 2 and any(self.noinf(a, env, depth + 1, strict) for a in inner[0].args):
                    return True
                return False
            if q and q.startswith("math."):
                return all(self.noinf(a, env, depth + 1, strict) for a in e.args)
            if isinstance(e.func, ast.Name) and e.func.id in self.local_funcs:
                q = f"{self.fi.qualname}.<locals>.{e.func.id}"
            if q in self.I.project.funcs:
                # the callee returns no inf: unconditionally, or provided its arguments carry none
                if self.I.ret_noinf_strict.get(q, False):
                    return True
                return self.I.ret_noinf.get(q, False) and all(self.noinf(a, env, depth + 1, strict) for a in e.args) and all(self.noinf(k.value, env, depth + 1, strict) for k in e.keywords)
            return False
        if isinstance(e, ast.Attribute):
            return False
        return False

    def types_quiet(self, e: ast.AST, env: Env):
        """Abstract type of a sub-expression without recording exceptions twice (the expression is evaluated elsewhere)."""
        self.sinks.append([])
        try:
            return self.ev(e, env)
        except AnalysisError:
            return None
        finally:
            self.sinks.pop()

    # ------------------------------------------------------------------ calls
    def call(self, e: ast.Call, env: Env) -> FrozenSet:
        I = self.I
        args = [self.ev(a.value if isinstance(a, ast.Starred) else a, env) for a in e.args]
        kwargs = {k.arg: self.ev(k.value, env) for k in e.keywords if k.arg}
        # local nested function
        if isinstance(e.func, ast.Name) and e.func.id in self.local_funcs:
            q = f"{self.fi.qualname}.<locals>.{e.func.id}"
            cfi = I.project.funcs.get(q)
            if cfi is not None:
                return self.call_repo(cfi, e, args, kwargs)
        q = self.scope.resolve_call(e)
        if q and q in I.project.funcs:
            return self.call_repo(I.project.funcs[q], e, args, kwargs)
        if q and (q + ".__init__") in I.project.funcs:
            self.call_repo(I.project.funcs[q + ".__init__"], e, args, kwargs, skip_self=True)
            return OTHER
        I.ops_checked += 1
        a0 = args[0] if args else frozenset()
        if q in ("builtins.float", "builtins.int"):
            if not args:
                return frozenset({q.split(".")[1]})
            bad = [a for a in a0 if a in ("none",) or is_seq(a) or a == ("dict",)]
            if bad:
                self.throw("TypeError", e, "implicit", f"{q.split('.')[1]}() of {sorted(map(str, bad))}")
            if "str" in a0 or "float" in a0:
                self.throw("ValueError", e, "implicit", f"{q.split('.')[1]}() of a non-numeric string / nan")
            if q == "builtins.int" and "float" in a0 and e.args and not self.noinf(e.args[0], env):
                self.throw("OverflowError", e, "implicit", f"int() of a float that may be infinite ({norm_text(e.args[0])[:50]}): cannot convert float infinity to integer")
            return frozenset({q.split(".")[1]})
        if q == "builtins.str" or q == "builtins.repr":
            return STR
        if q == "builtins.bool":
            return BOOL
        if q == "builtins.isinstance":
            return BOOL
        if q == "builtins.len":
            bad = a0 & (NONE | NUM)
            if bad:
                self.throw("TypeError", e, "implicit", f"len() of {sorted(map(str, bad))}")
            return frozenset({"int"})
        if q in ("builtins.round", "builtins.abs"):
            bad = a0 - NUM - OTHER
            if bad:
                self.throw("TypeError", e, "implicit", f"{q.split('.')[1]}() of {sorted(map(str, bad))}")
            if q == "builtins.round" and len(e.args) == 1 and not e.keywords and "float" in a0:
                if not self.noinf(e.args[0], env):
                    self.throw("OverflowError", e, "implicit", f"round() of a float that may be infinite ({norm_text(e.args[0])[:50]}): cannot convert float infinity to integer")
                self.throw("ValueError", e, "implicit", "round() of nan")
            return frozenset({"int", "float"}) if q == "builtins.round" and len(args) > 1 else (frozenset({"int"}) if q == "builtins.round" else a0 & NUM or NUM)
        if q in ("builtins.max", "builtins.min"):
            vals = frozenset().union(*args) if len(args) > 1 else elems_of(a0)
            kinds = {("num" if a in NUM else "str" if a == "str" else "seq" if is_seq(a) else str(a)) for a in vals if a != "other"}
            if len(kinds) > 1 or "none" in kinds:
                self.throw("TypeError", e, "implicit", f"{q.split('.')[1]}() over mixed types {sorted(kinds)}")
            return vals or NUM
        if q in ("builtins.all", "builtins.any"):
            return BOOL
        if q in ("builtins.tuple", "builtins.list", "builtins.sorted", "builtins.set", "builtins.reversed", "builtins.enumerate", "builtins.iter"):
            bad = [a for a in a0 if not (is_seq(a) or a in ("str", "other") or a == ("dict",))]
            if bad and args:
                self.throw("TypeError", e, "implicit", f"{q.split('.')[1]}() of non-iterable {sorted(map(str, bad))}")
            return seq(elems_of(a0) or TOP) if args else seq(frozenset())
        if q == "builtins.map":
            return seq(TOP)
        if q == "builtins.sum":
            return NUM
        if q == "builtins.range":
            return seq({"int"})
        if q == "builtins.type":
            return OTHER
        if q == "builtins.zip":
            # a row holds one element of each argument: its components are drawn from the union of the arguments' element types
            parts = [elems_of(a) for a in args]
            if parts and all(parts) and all(all(is_seq(x) or x == "str" for x in a) for a in args):
                return seq(seq(frozenset().union(*parts)))
            return seq(seq(TOP))
        if q in ("builtins.print", "builtins.hash", "builtins.id"):
            return OTHER
        if q and (q.startswith("re.") or q.startswith("math.")):
            if q.startswith("re.") and len(args) >= 2:
                bad = args[1] - STR - OTHER
                if bad:
                    self.throw("TypeError", e, "implicit", f"{q}() on non-string {sorted(map(str, bad))}")
                if q in ("re.split", "re.findall"):
                    return seq(STR)
                return frozenset({"other", "none"})
            if q.startswith("math."):
                bad = frozenset().union(*args) - NUM - OTHER if args else frozenset()
                if bad:
                    self.throw("TypeError", e, "implicit", f"{q}() of {sorted(map(str, bad))}")
                return frozenset({"float"})
            return OTHER
        # method calls
        if isinstance(e.func, ast.Attribute):
            recv = self.ev(e.func.value, env)
            meth = e.func.attr
            rq = self.scope.resolve(e.func.value)
            if rq and not (set(recv) - {"other"}):
                # method of a module-level object (compiled regex, ...)
                if meth in ("findall", "split"):
                    bad = a0 - STR - OTHER
                    if bad:
                        self.throw("TypeError", e, "implicit", f".{meth}() on non-string {sorted(map(str, bad))}")
                    return seq(STR)
                if meth in ("search", "match", "fullmatch"):
                    bad = a0 - STR - OTHER
                    if bad:
                        self.throw("TypeError", e, "implicit", f".{meth}() on non-string {sorted(map(str, bad))}")
                    return frozenset({"other", "none"})
                return OTHER
            out = set()
            for a in recv:
                if a == "str":
                    if meth in STR_METHODS:
                        out |= STR_METHODS[meth]
                        if meth in ("startswith", "endswith", "replace", "split", "find", "rfind", "join", "strip", "lstrip", "rstrip") and args:
                            if meth == "join":
                                bad = elems_of(a0) - STR - OTHER
                            else:
                                bad = a0 - STR - OTHER - NONE - frozenset(x for x in a0 if is_seq(x))
                                if meth in ("replace", "find", "rfind"):
                                    bad = a0 - STR - OTHER
                            if bad:
                                self.throw("TypeError", e, "implicit", f"str.{meth}() with argument {sorted(map(str, bad))}")
                    else:
                        self.throw("AttributeError", e, "implicit", f"str has no method .{meth}")
                elif is_seq(a):
                    if meth in SEQ_METHODS:
                        if meth in ("append", "extend", "insert") and isinstance(e.func.value, ast.Name):
                            nm = e.func.value.id
                            add = a0 if meth == "append" else (elems_of(a0) if meth == "extend" else (args[1] if len(args) > 1 else TOP))
                            env.types[nm] = frozenset((("seq", x[1] | add) if is_seq(x) else x) for x in env.types.get(nm, recv))
                        out |= {a} if meth == "copy" else ({"int"} if meth in ("index", "count") else (a[1] if meth == "pop" else {"none"}))
                    else:
                        self.throw("AttributeError", e, "implicit", f"list/tuple has no method .{meth}")
                elif a == ("dict",):
                    out |= TOP
                elif a == "other":
                    out |= {"other"}
                    if meth in ("group", "groups"):
                        out |= {"str"} if meth == "group" else {("seq", STR)}
                else:
                    self.throw("AttributeError", e, "implicit", f"method .{meth}() on {a}")
            return frozenset(out) or OTHER
        I.unknown_calls.add(q or norm_text(e.func))
        return TOP

    def call_repo(self, cfi: FuncInfo, e: ast.Call, args, kwargs, skip_self=False) -> FrozenSet:
        params = cfi.params()
        if (cfi.cls and params and params[0] == "self"):
            params = params[1:]
        bound: Dict[str, FrozenSet] = {}
        for p, a in zip(params, args):
            bound[p] = a
        for k, v in kwargs.items():
            bound[k] = v
        self.I.ops_checked += 1
        ret, raised = self.I.call_function(cfi, bound, self.chain)
        for r in raised:
            self.sinks[-1].append(r)
        return ret
