"""Memo tables in a call closure: is the key an injective function of everything the stored value depends on?

For every store `D[key] = value` into module-level state D made by a function of the closure of `entry`, the key and the value
are expanded through the function's single-definition locals down to its parameters (and the components a parameter is
unpacked into).  Verdicts, each decided from the shape of the expressions alone:

  ok         the key is a parameter / a tuple of atoms / a mixed-radix packing (8-bit components) and determines every atom the
             value depends on: the table is transparent, whatever is in it
  collision  (reported) the key provably loses an atom: setting another atom to 0 makes it vanish from the key by the
             annihilator laws 0 << x = 0, 0 * x = 0, 0 & x = 0 (e.g. `r << 16 | g << 8 + b`, which Python reads as
             `r << 16 | g << (8 + b)`), or a structurally exact key omits an atom the value is computed from
  undecided  anything else (noted, never reported)
"""
from __future__ import annotations

import ast
from typing import Dict, List, Optional, Set, Tuple

from sa.effects import Effects
from sa.loader import norm_text


def _env(fn: ast.AST):
    """single-definition locals -> defining expression; names bound more than once are dropped."""
    defs: Dict[str, List[ast.AST]] = {}
    unpack: Dict[str, int] = {}
    for n in ast.walk(fn):
        tgts = []
        if isinstance(n, ast.Assign):
            tgts = [(t, n.value) for t in n.targets]
        elif isinstance(n, (ast.AnnAssign, ast.NamedExpr)) and getattr(n, "value", None) is not None:
            tgts = [(n.target, n.value)]
        elif isinstance(n, (ast.AugAssign, ast.For, ast.comprehension)):
            for c in ast.walk(n.target):
                if isinstance(c, ast.Name):
                    defs.setdefault(c.id, []).extend([None, None])
        for t, v in tgts:
            if isinstance(t, ast.Name):
                if isinstance(v, ast.Call) and isinstance(v.func, ast.Attribute) and v.func.attr == "get" and len(v.args) == 1:
                    continue        # the table lookup of the memo idiom: the value that matters is the one computed on a miss
                defs.setdefault(t.id, []).append(v)
            elif isinstance(t, (ast.Tuple, ast.List)) and all(isinstance(e, ast.Name) for e in t.elts):
                if isinstance(v, ast.Name):
                    unpack[v.id] = len(t.elts)
                for i, e in enumerate(t.elts):
                    defs.setdefault(e.id, []).append(ast.Subscript(value=v, slice=ast.Constant(value=i), ctx=ast.Load()))
    return {k: v[0] for k, v in defs.items() if len(v) == 1 and v[0] is not None}, unpack


def _expand(e: ast.AST, env, params: Set[str], depth=0):
    class T(ast.NodeTransformer):
        def visit_Name(self, n):
            if n.id in params or n.id not in env or depth > 12:
                return n
            return _expand(env[n.id], env, params, depth + 1)
    import copy
    return T().visit(copy.deepcopy(e))


def _atom(e) -> Optional[str]:
    if isinstance(e, ast.Name):
        return e.id
    if isinstance(e, ast.Subscript) and isinstance(e.value, ast.Name) and isinstance(e.slice, ast.Constant) and isinstance(e.slice.value, int):
        return f"{e.value.id}[{e.slice.value}]"
    return None


def _atoms(e, params) -> Set[str]:
    out: Set[str] = set()

    def go(n):
        a = _atom(n)
        if a is not None and a.split("[")[0] in params:
            out.add(a)
            return
        for c in ast.iter_child_nodes(n):
            go(c)
    go(e)
    return out


def _linear(e, params) -> Optional[Dict[str, int]]:
    """coefficient map of an integer packing, or None; `|` is accepted where `+` is and checked by the radix test."""
    a = _atom(e)
    if a is not None and a.split("[")[0] in params:
        return {a: 1}
    if isinstance(e, ast.Constant) and isinstance(e.value, int) and not isinstance(e.value, bool):
        return {"": e.value}
    if isinstance(e, ast.BinOp):
        if isinstance(e.op, (ast.Add, ast.BitOr)):
            l, r = _linear(e.left, params), _linear(e.right, params)
            if l is None or r is None:
                return None
            out = dict(l)
            for k, v in r.items():
                out[k] = out.get(k, 0) + v
            return out
        if isinstance(e.op, (ast.LShift, ast.Mult)):
            l = _linear(e.left, params)
            r = _linear(e.right, params)
            if isinstance(e.op, ast.Mult) and l is not None and set(l) == {""} and r is not None:
                l, r = r, l
            if l is None or r is None or set(r) != {""} or r[""] < 0 or (isinstance(e.op, ast.LShift) and r[""] > 64):
                return None
            k = (1 << r[""]) if isinstance(e.op, ast.LShift) else r[""]
            return {a: c * k for a, c in l.items()}
    return None


def _radix_ok(lin: Dict[str, int]) -> bool:
    cs = sorted(c for a, c in lin.items() if a)
    if not cs or cs[0] <= 0:
        return False
    acc = 0
    for c in cs:
        if c <= acc:
            return False
        acc += 255 * c
    return True


def _zero(e, atom):
    """e with `atom` := 0, simplified by the annihilator / identity laws; returns an ast or the int 0."""
    if _atom(e) == atom:
        return 0
    if isinstance(e, ast.BinOp):
        l, r = _zero(e.left, atom), _zero(e.right, atom)
        lz, rz = l == 0 and not isinstance(l, ast.AST), r == 0 and not isinstance(r, ast.AST)
        if isinstance(e.op, (ast.LShift, ast.RShift)) and lz:
            return 0
        if isinstance(e.op, (ast.Mult, ast.BitAnd)) and (lz or rz):
            return 0
        if isinstance(e.op, (ast.Add, ast.BitOr, ast.BitXor)):
            if lz:
                return r
            if rz:
                return l
        if isinstance(e.op, (ast.Sub, ast.LShift, ast.RShift)) and rz:
            return l
        return ast.BinOp(left=l if isinstance(l, ast.AST) else ast.Constant(value=0), op=e.op, right=r if isinstance(r, ast.AST) else ast.Constant(value=0))
    return e


def _determined(key, params) -> Tuple[Set[str], bool, Optional[str]]:
    """(atoms the key determines, key is structurally exact, witness of a collision)"""
    a = _atom(key)
    if a is not None and a.split("[")[0] in params:
        return {a}, True, None
    if isinstance(key, (ast.Tuple, ast.List)):
        det, exact = set(), True
        for el in key.elts:
            d, ex, _w = _determined(el, params)
            det |= d
            exact = exact and ex
        return det, exact, None
    if isinstance(key, ast.Call) and isinstance(key.func, ast.Name) and key.func.id in ("tuple", "int", "str", "float", "bool", "frozenset") and len(key.args) == 1 and not key.keywords:
        d, ex, w = _determined(key.args[0], params)
        return (d, ex and key.func.id == "tuple", w)
    if isinstance(key, ast.Constant):
        return set(), True, None
    if isinstance(key, ast.BinOp):
        present = _atoms(key, params)
        lin = _linear(key, params)
        if lin is not None and _radix_ok(lin):
            return {a for a in lin if a}, True, None
        for u in sorted(present):
            z = _zero(key, u)
            left = _atoms(z, params) if isinstance(z, ast.AST) else set()
            gone = present - left - {u}
            if gone:
                return set(), False, f"with {u} = 0 the key no longer depends on {', '.join(sorted(gone))} (`{ast.unparse(key)}` is read as written here, operator precedence included)"
        return set(), False, None
    return set(), False, None


def memo_findings(project, entry: str):
    """[(verdict, fi, node, dname, message)] for the module-level stores in the call closure of `entry`."""
    eff = Effects(project)
    closure = eff.reach(entry) | {entry}
    out = []
    for q in sorted(closure):
        if q not in eff.sum:
            continue
        fi = project.funcs[q]
        params = {a.arg for a in fi.node.args.posonlyargs + fi.node.args.args + fi.node.args.kwonlyargs}
        env, unpack = _env(fi.node)
        for d, n in eff.sum[q].module_writes:
            short = d.rsplit(".", 1)[-1]
            tgt = None
            if isinstance(n, ast.Assign):
                for t in n.targets:
                    if isinstance(t, ast.Subscript) and isinstance(t.value, ast.Name) and t.value.id == short:
                        tgt = t
            if tgt is None:
                out.append(("undecided", fi, n, d, "the store is not of the form D[key] = value"))
                continue
            verdict, msg = store_verdict(tgt.slice, n.value, env, unpack, params)
            out.append((verdict, fi, n, d, msg))
    return closure, out


def store_verdict(key_expr, value_expr, env, unpack, params):
    key = _expand(key_expr, env, params)
    val = _expand(value_expr, env, params)
    det, exact, wit = _determined(key, params)
    if wit:
        return "collision", wit

    def comps(a):
        p = a.split("[")[0]
        return {f"{p}[{i}]" for i in range(unpack[p])} if a == p and p in unpack else {a}
    need = set().union(*[comps(a) for a in _atoms(val, params)]) if _atoms(val, params) else set()
    have = set().union(*[comps(a) for a in det]) if det else set()
    have |= {a.split("[")[0] for a in have if a.split("[")[0] in unpack and comps(a.split("[")[0]) <= have}
    miss = {a for a in need if a not in have and a.split("[")[0] not in have}
    if not need and not isinstance(val, ast.Constant):
        return "undecided", f"what the stored value `{ast.unparse(val)}` is computed from could not be traced to the parameters"
    if not miss and exact:
        return "ok", f"key `{ast.unparse(key)}` determines {sorted(need)}"
    if miss and exact:
        return "collision", f"the stored value is computed from {', '.join(sorted(miss))}, which the key `{ast.unparse(key)}` does not contain"
    return "undecided", f"key `{ast.unparse(key)}` is not of a recognised injective shape"
