#!/venv/bin/python
"""refcheck.py [--tests] [--only=C05,C17] <dir with patch.diff> ... : a behaviour-preserving refactoring must leave every check silent (exit 0).

Each patch is applied in its own scratch worktree of /repo (removed afterwards); with --tests the 125 tests are run first.
"""
import json
import os
import subprocess
import sys
import tempfile
from concurrent.futures import ThreadPoolExecutor

VERIF = os.path.dirname(os.path.dirname(os.path.abspath(__file__)))
ALL = ["C01", "C02", "C04", "C05", "C06", "C07", "C08", "C09", "C10", "C11", "C12", "C13", "C14", "C15", "C16", "C17", "C18", "C19"]


ONLY = [p for a in sys.argv[1:] if a.startswith("--only=") for p in a.split("=", 1)[1].split(",") if p in ALL]


def sh(cmd, cwd=None, env=None):
    p = subprocess.run(cmd, shell=True, cwd=cwd, env=env, capture_output=True, text=True, timeout=1800)
    return p.returncode, p.stdout + p.stderr


def one(d, tests):
    d = os.path.abspath(d)
    wt = tempfile.mkdtemp(prefix="refchk_", dir="/tmp")
    os.rmdir(wt)
    out = {"ref": os.path.basename(d)}
    try:
        rc, o = sh(f"git -C /repo worktree add -q {wt} HEAD")
        assert rc == 0, o
        rc, o = sh(f"git -C {wt} apply --whitespace=nowarn {d}/patch.diff")
        out["apply_rc"] = rc
        if tests:
            env = dict(os.environ, PYTHONPATH=f"{wt}/src")
            rc, o = sh("/venv/bin/python -m pytest -q -x -p no:cacheprovider --timeout=900", cwd=wt, env=env)
            out["tests_rc"] = rc
        res = {}
        for pid in ONLY or ALL:
            rc, o = sh(f"{VERIF}/vcheck {pid} --no-evidence --root {wt}", cwd=VERIF)
            if rc != 0:
                res[pid] = {"exit": rc, "lines": [l[:400] for l in o.splitlines() if l.startswith("  src/") or l.startswith("ANALYSIS")][:3]}
        out["alarms"] = res
    finally:
        sh(f"git -C /repo worktree remove --force {wt}")
    return out


def main():
    args = [a for a in sys.argv[1:] if not a.startswith("--")]
    tests = "--tests" in sys.argv
    with ThreadPoolExecutor(max_workers=16) as ex:
        results = list(ex.map(lambda d: one(d, tests), args))
    bad = 0
    for r in results:
        print(json.dumps(r, indent=1))
        bad += bool(r["alarms"]) or r.get("apply_rc", 0) != 0 or r.get("tests_rc", 0) != 0
    print(f"{len(results)} refactoring(s), {bad} with an alarm")
    return 1 if bad else 0


if __name__ == "__main__":
    sys.exit(main())
