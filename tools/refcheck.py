#!/venv/bin/python
"""refcheck.py <dir with patch.diff> : a behaviour-preserving refactoring must leave every check silent (exit 0)."""
import json, os, subprocess, sys, tempfile
VERIF = os.path.dirname(os.path.dirname(os.path.abspath(__file__)))
ALL = ["C01", "C02", "C04", "C05", "C06", "C07", "C08", "C09", "C10", "C11", "C12", "C13", "C14", "C15", "C16", "C17", "C18", "C19"]

def sh(cmd, cwd=None, env=None):
    p = subprocess.run(cmd, shell=True, cwd=cwd, env=env, capture_output=True, text=True, timeout=1800)
    return p.returncode, p.stdout + p.stderr

d = os.path.abspath(sys.argv[1])
wt = tempfile.mkdtemp(prefix="refchk_", dir="/tmp"); os.rmdir(wt)
out = {"ref": d}
try:
    rc, o = sh(f"git -C /repo worktree add -q {wt} HEAD"); assert rc == 0, o
    rc, o = sh(f"git -C {wt} apply --whitespace=nowarn {d}/patch.diff"); out["apply_rc"] = rc
    env = dict(os.environ, PYTHONPATH=f"{wt}/src")
    rc, o = sh("/venv/bin/python -m pytest -q -x -p no:cacheprovider --timeout=900", cwd=wt, env=env); out["tests_rc"] = rc
    res = {}
    for pid in ALL:
        rc, o = sh(f"{VERIF}/vcheck {pid} --no-evidence --root {wt}", cwd=VERIF)
        if rc != 0:
            res[pid] = {"exit": rc, "lines": [l for l in o.splitlines() if l.startswith("  src/") or l.startswith("ANALYSIS")][:3]}
    out["alarms"] = res
finally:
    sh(f"git -C /repo worktree remove --force {wt}")
print(json.dumps(out, indent=1))
