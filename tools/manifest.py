#!/venv/bin/python
"""Regenerates /verif/MANIFEST.json from the table below (run after adding a check)."""
import json
import os

HERE = os.path.dirname(os.path.dirname(os.path.abspath(__file__)))

TB = ("stdlib ast of /venv/bin/python parses the code the same way the interpreter compiles it; names resolve statically "
      "(no monkey-patching); third-party dependencies behave as documented")

CHECKS = {
    "C15": dict(
        technique="static effect analysis (ast): module/class/self/argument write sets closed over the call graph, decorator and default-argument audit, ambient-input census; memo-table transparency (key injectivity, immutable cached value, lookup idiom only); bulk path rule borrowed from C12",
        category="other",
        text="Decides for every function of the package, on all paths at once, that no shared mutable state and no ambient input exists "
             "(rules P1-P7): history-, position- and thread-independence then hold for all inputs. A memo keyed on part of the arguments, "
             "a growing default, module scratch state or a write to self in make_readable is one store in the syntax tree, whatever input would expose it.",
        ref="DESIGN 3/C15",
        note=TB + "; a memo table is accepted only when its key is shown injective in all the cached value is computed from, the value is annotated immutable and the table is touched through the lookup idiom alone; any other store into module-level state is reported"),
    "C17": dict(
        technique="static effect analysis + control dependence (ast CFG, guard-literal dataflow, reaching definitions): I/O primitives reachable through the resolved call graph must be dominated by the show/save_report tests; polarity of the validity guard around the preview's hex rendering; raw-entry provenance of converter arguments in the report region; destructuring in the preview region dominated by a test of the unpacked name; CFG reachability of the raw returned value to the preview call avoiding hex-rendering / re-reading nodes",
        category="other",
        text="Enumerates every I/O primitive reachable from the public API and proves, over all CFG paths, that each executes only under the "
             "requested flag (conditional I/O summaries are translated through call sites), that constructors/queries reach none, that nothing defined "
             "in the preview/report region reaches the return, and that report files are the documented constants. Covers every pair, spelling and outcome because the rule is about paths.",
        ref="DESIGN 3/C17",
        note=TB + "; the I/O primitive table (sa/effects.py) and the reviewed-import list are complete; 'preview never raises' is not decided"),
    "C18": dict(
        technique="static path and loop-carried-dependence rules (ast CFG, reaching definitions tagged across the back edge, use-kind census, guard literals) over cli/main.py",
        category="other",
        text="Proves structurally that the per-file loop body is one catch-all try that cannot leave the loop, that no definition of one iteration reaches a use "
             "in a later one, that the only outside object mutated is the write-only counters table, that per-file tables are allocated in the body, and that the "
             "discovery filter and the output-name infix are the same literal. Isolation for every directory tree and fault placement follows from these shapes; the tests run one file.",
        ref="DESIGN 3/C18",
        note=TB + "; byte-identity of outputs additionally relies on C15 (purity) and is not compared at run time"),
    "C12": dict(
        technique="static path counting + loop-carried dependence + reaching-definition value flow (ast CFG) over make_readable_bulk; label rule borrowed from C05",
        category="other",
        text="Proves on all paths that each iteration appends exactly once to an append-only accumulator, that the loop is left only by exhaustion, that nothing is carried "
             "between iterations, and - by following reaching definitions - that the appended pair is (make_readable(mode, very_readable) of this entry's own pair)[0] with the "
             "label of ColorPair(that colour, same bg, same large); invalid entries append (text, non-readable constant). Holds for every list, order and mix of entries.",
        ref="DESIGN 3/C12",
        note=TB + "; correctness of make_readable / is_readable themselves is C01/C05/C06"),
    "C19": dict(
        technique="static taint analysis (ast): HTML-context classification of every template hole + interprocedural abstraction of hole values (reaching definitions, returns, call-site parameters, dict/list displays) to CONST/ESCAPED/MARKUP/TAINTED",
        category="other",
        text="Every value written to a report must be composed of checked template fragments; each hole's context (text, quoted attribute, other) is read from the constant "
             "HTML around it and its value class is derived through the resolved program, including the closed set of level strings. Decides safety for all strings in all "
             "user-controlled slots of both generators; a removed or quote-less escape, a new raw field or an unquoted attribute is reported with file:line and the value's origin.",
        ref="DESIGN 3/C19",
        note=TB + "; html.escape(quote=True) neutralises & < > \" '; scope = text arriving through the CLI and save_report (internal builders called with forged level strings are out of scope)"),
    "C14": dict(
        technique="static exception-escape analysis: syntax-directed abstract interpretation over abstract types (isinstance/None/length/membership narrowing, context-sensitive callees, try/except class filtering) + None-guard typestate on .rgb (guard-literal dataflow); bulk path rule borrowed from C12",
        category="other",
        text="Analyses the constructors once for the property's whole input domain (str, or list/tuple of int/float/bool/str/None of any length): every operation that can raise for "
             "some abstract operand contributes its exception class and the obligation is that no class escapes the constructor's handler; plus: .rgb is dereferenced only under "
             "is_valid, invalid pairs short-circuit to the documented constants. Re-derived the genuine defect F-C14 (TypeError out of Color((None,)*4)), now fixed in /repo.",
        ref="DESIGN 3/C14, 4/F-C14",
        note=TB + "; builtin semantics table of sa/exc.py; numeric-domain exceptions (OverflowError, ZeroDivisionError), RecursionError, MemoryError out of scope; nested sequences as elements are outside the property's domain"),
    "C01": dict(
        technique="static deductive verification: value-based guard-fact dataflow over the ast CFG (phi terms at joins, candidate invariants kept iff every predecessor entails them), modular callee contracts, small order/equality/implication prover; plus formula-shape audit of the contrast function and emitted-field rules as discharged assumptions",
        category="other",
        text="Every return statement of the three strategies, of check_and_fix_contrast (4 premium/large configurations x 3 mode classes) and of make_readable carries the obligations "
             "flag truthy => contrast(returned colour, bg) >= MIN and flag falsy => contrast < MIN, MIN from the WCAG table of the property; all are discharged on all CFG paths from branch "
             "facts, definitions and callee contracts. This quantifies over all 2^48 pairs and every configuration at once; a flipped operator or a wrong table entry only matters on a measure-zero set of inputs but is one undischarged obligation here.",
        ref="DESIGN 3/C01, 2.2",
        note=TB + "; contracts (sa/contracts.py) transcribe the property; calculate_contrast_ratio / calculate_delta_e_2000 and the colour-preserving format wrappers are uninterpreted (their correctness: C05/C11/C06); A1 no NaN; oklch_to_rgb_safe yields valid 8-bit triples (C10)"),
    "C02": dict(
        technique="static deductive verification (same guard-fact engine): accumulator lock-step invariants, monotonicity through callee contracts, early-return dominance; plus formula-shape audit of the contrast function as discharged assumption; compositing wiring rules borrowed from C13",
        category="other",
        text="At every return of the search, the strategies, the dispatcher and make_readable: contrast(result, bg) >= contrast(original, bg); and contrast(original) >= MIN implies the result denotes the "
             "original colour with success. Proved on all paths (loop invariants inferred as surviving candidates), hence for every pair, spelling-independent.",
        ref="DESIGN 3/C02",
        note=TB + "; contracts (sa/contracts.py) transcribe the property; calculate_contrast_ratio / calculate_delta_e_2000 and the colour-preserving format wrappers are uninterpreted (their correctness: C05/C11/C06); A1 no NaN; oklch_to_rgb_safe yields valid 8-bit triples (C10)"),
    "C04": dict(
        technique="static deductive verification (same guard-fact engine): tolerance-guard dominance at every recording site, schedule-maximum constant evaluation, chain-of-bounded-steps invariant; CIEDE2000 closed-form rule borrowed from C11 (the yardstick of every tolerance); memo-key injectivity over the distance routine's call closure",
        category="proof",
        text="The search routines return None or a valid colour within the tolerance they were given; the multi-phase search stays within max(schedule) (default literal maximum 5.0); mode 0 is within 5.0; "
             "modes 1/2 only return colours reached from the original by chaining such steps on the caller's background. Obligations at every return, all paths, all arguments (including schedules the library never uses).",
        ref="DESIGN 3/C04",
        note=TB + "; contracts (sa/contracts.py) transcribe the property; calculate_contrast_ratio / calculate_delta_e_2000 and the colour-preserving format wrappers are uninterpreted (their correctness: C05/C11/C06); A1 no NaN; oklch_to_rgb_safe yields valid 8-bit triples (C10)"),
    "C16": dict(
        technique="static deductive verification (guard-fact engine) for recursive-first and dispatch identity + constant-table relations + use-kind census of min_contrast (ast)",
        category="other",
        text="Proves that relaxed returns exactly recursive's (colour, True) whenever recursive succeeds on the same arguments, that the dispatcher hands mode 2 to relaxed and the default arm to recursive with identical "
             "arguments and returns their result unchanged (so mode 1 success => identical mode 2 result, for all pairs); checks target(very)=target(plain), min(very)>=min(plain) and that the minimum is only ever compared or forwarded. "
             "The trajectory argument behind 'readable covers very readable' is stated, not proved.",
        ref="DESIGN 3/C16",
        note=TB + "; contracts (sa/contracts.py) transcribe the property; calculate_contrast_ratio / calculate_delta_e_2000 and the colour-preserving format wrappers are uninterpreted (their correctness: C05/C11/C06); A1 no NaN; oklch_to_rgb_safe yields valid 8-bit triples (C10)"),
    "C05": dict(
        technique="static formula-shape and constant audit: closed-form extraction from the ast (temporaries and helpers inlined, hash-consed DAG), alignment with the WCAG definition modulo commutativity, per-constant comparison, partial evaluation of the label if-chains; loop-carried-dependence rule (borrowed from C12) on what a bulk entry is labelled with",
        category="other",
        text="Decides that the source *is* the WCAG 2 formula: linearisation curve, the three weights bound to their channels, (max+0.05)/(min+0.05) (symmetric, >= 1 by shape), inclusive thresholds per text size, the level/label "
             "mapping over the closed set of levels. A fourth-decimal weight error or a non-inclusive threshold changes results only on a thin set of inputs the tests never touch, but is one mismatching node here. "
             "Float rounding / bit-exact agreement on 2^24 colours is not decided.",
        ref="DESIGN 3/C05",
        note=TB + "; reference formulas in checks/C05.py transcribe WCAG 2; the sRGB knee is compared by 8-bit equivalence class (0.03928 and 0.04045 both accepted)"),
    "C11": dict(
        technique="static formula-shape and constant audit (closed-form extraction, helper inlining, hash-consed DAG alignment modulo commutativity) of sRGB->XYZ->Lab and of CIEDE2000 end to end against the published definitions",
        category="other",
        text="Decides that the source is the CIE formula: ~45 constants, every sign, every wrap branch of delta-h' and the mean hue, radians() on every trigonometric argument, the operand bindings (C' vs C), the early 0.0 for identical inputs. "
             "The tests only check three coarse inequalities; a wrong weight or a swapped branch is one mismatching node here. Agreement within 0.05 on all pairs, symmetry under rounding and 'never raises' are numeric and not decided.",
        ref="DESIGN 3/C11",
        note=TB + "; references in checks/C11.py transcribe CIE 15 / Sharma-Wu-Dalal / IEC 61966-2-1; matrix and Lab constants compared to 2e-4 relative with CIE-exact spellings accepted"),
    "C10": dict(
        technique="static formula-shape and constant audit of the OKLab forward/inverse pipeline + constant arithmetic on the code's own matrix literals (mutual inverses) + interval analysis and a path rule for the safe wrappers",
        category="other",
        text="Decides that rgb_to_oklch / oklch_to_rgb / linear_to_srgb are Ottosson's definition (33 matrix coefficients, sign-preserving cube root / cube, pi/180, cos/sin, atan2 hue wrap, transfer functions, the clamps that give L in [0,1] and 8-bit channels), "
             "that M x M^-1 = I for the literals in the code, and that every return of a safe wrapper is the validated plain result or a fallback whose components are provably in range. Re-derived the genuine defect F-C10 "
             "(rgb_to_oklch_safe((300,300,300)) -> L = 1.18), now fixed in /repo. Losslessness of the 2^24 round trip is numeric and not decided.",
        ref="DESIGN 3/C10, 4/F-C10",
        note=TB + "; references in checks/C10.py transcribe Ottosson's OKLab (matrices of 2021-01-25) to 1e-6 relative"),
    "C07": dict(
        technique="static constant-table comparison (148 keywords, two reference sources), normalisation-dominance rule via reaching-definition origins, formula-shape audits of the token scalers / hex reader / CSS HSL->RGB algorithm, hue-wrap census; language inclusion of the numeric-token regex decided on the pattern (subset construction over its character classes)",
        category="other",
        text="Decides the structural clauses: the keyword table is CSS Color 3 + rebeccapurple entry by entry; every dispatch test sees color.strip().lower(); percentages, alpha, plain components, rounding and clamping are the CSS scalings; "
             "hex digits are doubled and read base 16 in R,G,B order; every hue entry is wrapped % 360; HSL->RGB is the CSS algorithm. A single wrong keyword value or a /256 is invisible to thirty sampled strings but is one mismatch here. "
             "Nearest-8-bit rounding of arbitrary decimals and inner-whitespace lexing are not decided.",
        ref="DESIGN 3/C07",
        note=TB + "; embedded keyword table /verif/ref/css_named_colors.json (generated from tinycss2.color3, spot-checked against the CSS spec); thorough tier re-reads tinycss2's table"),
    "C13": dict(
        technique="static argument-wiring rules (reaching-definition origins, guard literals) from ColorPair.__init__ through Color._parse to every compositing call + formula-shape audit of the two source-over blends; per-position component provenance of the compositor's colour; token-pattern rule borrowed from C07",
        category="other",
        text="Decides that the pair's own background is parsed first and is the only compositing context that reaches a translucent text colour on every path (white only when no background is supplied; a translucent background gets no context), "
             "and that both compositors are per-channel fg*a + bg*(1-a) with matching indices, alpha 1 returning the colour itself. Covers every spelling and every background at once; the tests never build a ColorPair with translucent text on a non-white background. The 1.5-unit numeric bound is not decided.",
        ref="DESIGN 3/C13",
        note=TB + "; source-over definition from CSS Compositing"),
    "C06": dict(
        technique="static constant-table check by partial evaluation of the format dispatch, formula-shape audit of format detection, reaching-definition wiring of make_readable's re-formatting, interval analysis of the emitted hsl() fields under the function's own validation guards",
        category="other",
        text="Decides: detection classifies as documented and format_color maps every label detection can return to the documented counterpart; make_readable re-formats the optimiser's colour with the text's own detected format whether or not the fix succeeded; "
             "every emitted field is inside the range the library's reader accepts (hex pairs, rgb ints, hsl S/L in [0,100]). Re-derived the genuine defect F-C06 (unclamped saturation -> 'hsl(.., 100.00000000000003%, ..)' rejected by the library's own parser, ~0.3% of colours), now fixed in /repo. "
             "Read-back *equality* on 2^24 colours is numeric and not decided.",
        ref="DESIGN 3/C06, 4/F-C06",
        note=TB + "; acceptance ranges of the reader as established under C07/C14"),
    "C09": dict(
        technique="static effect analysis (file-system primitives reachable from the CLI entry, with conditional-I/O summaries) + provenance of every write target + lossless-parse flag audit + store census and reaching-definition origins of every .content/.value write-back; guard-dominance rule for re-parsing at-rule blocks; discovery-filter rule borrowed from C18",
        category="other",
        text="Decides that the command's only file effects are open(<stem>_cm<suffix>, 'w') and the constant non-.css report, that inputs are opened read-only, that every re-serialised parse keeps whitespace and comments, that only update_decl_value writes a declaration "
             "and every .content write-back is the unfiltered list parsed from that same node, and that the output is the serialisation of this file's own rules. Holds for every stylesheet; the tests only grep for substrings. tinycss2's serialise-after-parse identity is assumed, not decided.",
        ref="DESIGN 3/C09",
        note=TB + "; tinycss2 keeps whitespace/comment tokens when the skip_* flags are False and serialises untouched tokens verbatim"),
    "C08": dict(
        technique="static path rules over the ast CFG (exactly-one-counter counting dataflow incl. exception edges, must-pass-through with boolean-flag path sensitivity), reaching-definition origins for written == reported == API value, allocation-site ownership of declaration lists for write survival, constant-table agreement; hole-by-hole value flow of the report card; optional-value (regex match) dereference discipline over the short-circuit CFG; store census of the settings inside the rule loop",
        category="other",
        text="Decides, for every stylesheet shape at once: each rule with a text colour increments exactly one counter; the value written, the value reported and pair.make_readable(mode, very_readable=premium)[0] are one value; every 'adjusted' path writes and no other path does; "
             "every write lands in the list that is serialised last into its rule; the CLI target equals the optimiser's minimum; last declaration wins; nested recursion forwards everything. Re-derived two genuine defects (F-C08a: var() fallback/undefined reported adjusted but unwritten; "
             "F-C08b: html/:root colour fix overwritten by a stale snapshot), both now fixed in /repo.",
        ref="DESIGN 3/C08, 4/F-C08a, F-C08b",
        note=TB + "; relies on C01 for 'the success flag is the WCAG verdict'; the effect of a shared custom property on rules counted earlier is not decided"),
}

NOT_APPLICABLE = {
    "C03": "existence-implies-found over floating-point search trajectories (binary search + gradient descent): no dataflow/shape rule bounds it; needs a run-time differential search, a different technique family (DESIGN 5)",
}


def main():
    props = [json.loads(l) for l in open(os.path.join(HERE, "properties.jsonl"))]
    checks = []
    na = []
    for p in props:
        pid = p["id"]
        if pid in CHECKS:
            c = CHECKS[pid]
            checks.append({
                "property_id": pid,
                "quick_cmd": f"/verif/vcheck {pid} --tier quick",
                "thorough_cmd": f"/verif/vcheck {pid} --tier thorough",
                "evidence_file": f"/verif/evidence/{pid}.json",
                "replay_cmd_template": f"/verif/vcheck {pid} --replay {{path}} --no-evidence",
                "engine": "sa",
                "level_claimed": {"category": c["category"], "text": c["text"], "design_ref": c["ref"]},
                "level_note": c["note"],
                "technique": c["technique"],
            })
        else:
            na.append({"property_id": pid, "reason": NOT_APPLICABLE.get(pid, "check not built yet (build in progress)")})
    m = {
        "version": 1,
        "setup_cmd": "/venv/bin/python -m compileall -q /verif/sa /verif/checks /verif/corpus && /venv/bin/python -c \"import ast; print('verif: stdlib-only static analysers ready')\"",
        "hooks": {
            "guard": "CM_COLORS_VERIF",
            "enable": "no hooks: every check is a static analysis of /repo/src/cm_colors read with ast; nothing of the repository is built, imported or executed",
            "baseline_off_cmd": "cd /repo && /venv/bin/python -m pytest -q -p no:cacheprovider --timeout=900",
            "source_commits": [],
            "fix_commits": ["133000f fix: hsla_to_rgb tuple branch raises ValueError (not TypeError) for non-numeric components", "f8908b4 fix: clamp the grey fallback lightness of rgb_to_oklch_safe to [0, 1]", "a0f5ade fix: clamp HSL saturation to [0, 1] in rgb_to_hsl so the emitted hsl() string parses back", "5522f8d fix: rewrite the declaration itself when an adjusted var() colour has no definition to update", "c289190 fix: edit :root/html rules in the declaration list that main writes back"],
            "add_only": True,
        },
        "engines": [{
            "name": "sa", "path": "/verif/sa",
            "serves_properties": sorted(CHECKS),
            "kind_free_text": "custom static analysers over the Python ast: loader+resolver, hand-built CFG, value-based guard-fact dataflow with contracts, effect/exception/taint analyses, constant-table and formula-shape audits",
        }],
        "checks": checks,
        "not_applicable": na,
        "notes": "Technique family: static analysis only. Exit 0 = all obligations discharged; 1 = VIOLATION; 2 = ANALYSIS-ERROR (anchor vanished / unreadable construct / floor not met). Known findings: /verif/known_findings.json.",
    }
    with open(os.path.join(HERE, "MANIFEST.json"), "w") as fh:
        json.dump(m, fh, indent=1)
    print(f"MANIFEST.json: {len(checks)} checks, {len(na)} not applicable")


if __name__ == "__main__":
    main()
