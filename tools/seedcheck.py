#!/venv/bin/python
"""seedcheck.py <seed dir> [--props C01,C02,...]

Confirms a seeded change (patch.diff + demo.py) in a scratch worktree of /repo -- demo passes on the
clean tree, the 125 tests pass with the patch, the demo fails with the patch -- and then runs the
checks of /verif against /repo with the patch applied (git apply ... ; checks ; git checkout -- .).
Prints one JSON object. Nothing is ever committed to /repo.
"""
import json
import os
import subprocess
import sys
import tempfile
import shutil

VERIF = os.path.dirname(os.path.dirname(os.path.abspath(__file__)))
ALL = ["C01", "C02", "C04", "C05", "C06", "C07", "C08", "C09", "C10", "C11", "C12", "C13", "C14", "C15", "C16", "C17", "C18", "C19"]


def sh(cmd, cwd=None, env=None, timeout=900):
    p = subprocess.run(cmd, shell=True, cwd=cwd, env=env, capture_output=True, text=True, timeout=timeout)
    return p.returncode, (p.stdout + p.stderr)


def main():
    seed = os.path.abspath(sys.argv[1])
    props = ALL
    for a in sys.argv[2:]:
        if a.startswith("--props"):
            props = a.split("=", 1)[1].split(",")
    patch = os.path.join(seed, "patch.diff")
    demo = os.path.join(seed, "demo.py")
    out = {"seed": seed}
    wt = tempfile.mkdtemp(prefix="seedchk_", dir="/tmp")
    os.rmdir(wt)
    try:
        rc, o = sh(f"git -C /repo worktree add -q {wt} HEAD")
        assert rc == 0, o
        env = dict(os.environ, PYTHONPATH=f"{wt}/src")
        # demos may refer to their own location: copy next to the worktree root like the author ran it
        os.makedirs(f"{wt}/seedx", exist_ok=True)
        shutil.copy(demo, f"{wt}/seedx/demo.py")
        rc, o = sh(f"/venv/bin/python seedx/demo.py", cwd=wt, env=env)
        out["demo_clean_rc"] = rc
        out["demo_clean_tail"] = o.strip().splitlines()[-2:] if o.strip() else []
        rc, o = sh(f"git -C {wt} apply --whitespace=nowarn {patch}")
        out["apply_rc"] = rc
        if rc != 0:
            out["apply_err"] = o[-400:]
        rc, o = sh("/venv/bin/python -m pytest -q -p no:cacheprovider --timeout=900 -x -q", cwd=wt, env=env)
        out["tests_rc"] = rc
        out["tests_tail"] = o.strip().splitlines()[-1:] if o.strip() else []
        rc, o = sh(f"/venv/bin/python seedx/demo.py", cwd=wt, env=env)
        out["demo_patched_rc"] = rc
        out["demo_patched_tail"] = o.strip().splitlines()[-3:] if o.strip() else []
    finally:
        sh(f"git -C /repo worktree remove --force {wt}")
    out["confirmed"] = out.get("demo_clean_rc") == 0 and out.get("apply_rc") == 0 and out.get("tests_rc") == 0 and out.get("demo_patched_rc", 0) != 0
    # run the checks against the patched tree. Default: a scratch worktree passed with --root (does not disturb /repo);
    # with --in-repo: git -C /repo apply ... ; checks ; git -C /repo checkout -- .
    results = {}
    in_repo = "--in-repo" in sys.argv
    if in_repo:
        rc, o = sh("git -C /repo status --porcelain")
        assert o.strip() == "", f"/repo is not clean: {o}"
        try:
            rc, o = sh(f"git -C /repo apply --whitespace=nowarn {patch}")
            assert rc == 0, o
            for pid in props:
                rc, o = sh(f"{VERIF}/vcheck {pid} --no-evidence", cwd=VERIF)
                lines = [l for l in o.splitlines() if l.startswith("  src/") or l.startswith("ANALYSIS")]
                results[pid] = {"exit": rc, "report": lines[:3]}
        finally:
            sh("git -C /repo checkout -- .")
    else:
        wt2 = tempfile.mkdtemp(prefix="seedchk2_", dir="/tmp")
        os.rmdir(wt2)
        try:
            rc, o = sh(f"git -C /repo worktree add -q {wt2} HEAD")
            assert rc == 0, o
            rc, o = sh(f"git -C {wt2} apply --whitespace=nowarn {patch}")
            assert rc == 0, o
            for pid in props:
                rc, o = sh(f"{VERIF}/vcheck {pid} --no-evidence --root {wt2}", cwd=VERIF)
                lines = [l for l in o.splitlines() if l.startswith("  src/") or l.startswith("ANALYSIS")]
                results[pid] = {"exit": rc, "report": lines[:3]}
        finally:
            sh(f"git -C /repo worktree remove --force {wt2}")
    out["checks"] = {k: v["exit"] for k, v in results.items()}
    out["fired"] = {k: v["report"] for k, v in results.items() if v["exit"] == 1}
    out["inconclusive"] = {k: v["report"] for k, v in results.items() if v["exit"] == 2}
    print(json.dumps(out, indent=1))


if __name__ == "__main__":
    main()
