#!/venv/bin/python
"""normdump.py <refactoring dir|seed dir|-> <qualname substr>... : print normalised source of matching functions"""
import sys, os, subprocess, tempfile, ast
sys.path.insert(0,'/verif')
d=sys.argv[1]
wt=None
root='/repo'
if d != '-':
    wt=tempfile.mkdtemp(prefix='nd_',dir='/tmp'); os.rmdir(wt)
    subprocess.run(f"git -C /repo worktree add -q {wt} HEAD && git -C {wt} apply --whitespace=nowarn {d}/patch.diff",shell=True,check=True)
    root=wt
try:
    from sa.loader import Project
    p=Project(root)
    for q,fi in p.funcs.items():
        if any(s in q for s in sys.argv[2:]):
            print('#',q); print(ast.unparse(fi.node)); print()
finally:
    if wt: subprocess.run(f"git -C /repo worktree remove --force {wt}",shell=True)
