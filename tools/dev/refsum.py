import sys,json
txt=sys.stdin.read()
dec=json.JSONDecoder(); i=0
while True:
    j=txt.find('{',i)
    if j<0: break
    try:
        o,k=dec.raw_decode(txt[j:])
    except Exception: break
    i=j+k
    print(o['ref'], o.get('apply_rc'), o.get('tests_rc'), {p:v['exit'] for p,v in o['alarms'].items()})
    for p,v in o['alarms'].items():
        for l in v['lines'][:2]: print('    ',p,l[:300])
print(txt[i:])
