#!/bin/bash
# take.sh <agent dir name e.g. R15> <prefix ref|add> : copy patches into /verif/refactorings and run refcheck with tests
r=$1; pre=${2:-ref}
dirs=""
for k in 1 2 3 4; do d=/tmp/seed9/$r/$pre$k; if [ -f $d/patch.diff ]; then t=/verif/refactorings/${r}_$pre$k; mkdir -p $t; cp $d/patch.diff $t/; for f in notes.md equiv.py; do [ -f $d/$f ] && cp $d/$f $t/; done; dirs="$dirs $t"; fi; done
/verif/tools/refcheck.py --tests $dirs 2>&1 | python3 /tmp/refsum.py
