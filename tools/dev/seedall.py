import json, os, subprocess, sys, tempfile
from concurrent.futures import ThreadPoolExecutor
VERIF='/verif'
seeds=sorted(d for d in os.listdir(f'{VERIF}/seeded') if os.path.isdir(f'{VERIF}/seeded/{d}'))
ALL=["C01","C02","C04","C05","C06","C07","C08","C09","C10","C11","C12","C13","C14","C15","C16","C17","C18","C19"]
def sh(c): 
    p=subprocess.run(c,shell=True,capture_output=True,text=True); return p.returncode,p.stdout+p.stderr
def one(s):
    wt=tempfile.mkdtemp(prefix='sd_',dir='/tmp'); os.rmdir(wt)
    try:
        rc,o=sh(f'git -C /repo worktree add -q {wt} HEAD'); assert rc==0,o
        rc,o=sh(f'git -C {wt} apply --whitespace=nowarn {VERIF}/seeded/{s}/patch.diff'); assert rc==0,o
        res={}
        props = ALL if '--all' in sys.argv else [s.split('-')[0]]
        for pid in props:
            rc,o=sh(f'{VERIF}/vcheck {pid} --no-evidence --root {wt}')
            res[pid]=rc
        return s,res
    finally:
        sh(f'git -C /repo worktree remove --force {wt}')
with ThreadPoolExecutor(16) as ex:
    for s,res in ex.map(one,seeds):
        own=s.split('-')[0]
        print(s, 'OWN' if res.get(own)==1 else f'MISSED({res.get(own)})', {k:v for k,v in res.items() if v!=0 and k!=own})
