#!/bin/bash
# usage: runall.sh tier
tier=${1:-quick}
for p in C01 C02 C04 C05 C06 C07 C08 C09 C10 C11 C12 C13 C14 C15 C16 C17 C18 C19; do
  ( /verif/vcheck $p --tier $tier --no-evidence > /tmp/out_$p.txt 2>&1; echo "$p $? $(grep -c . /tmp/out_$p.txt) $(grep 'sensitivity' /tmp/out_$p.txt | cut -d: -f3)" ) &
  if [ "$tier" = thorough ]; then wait; fi
done
wait
