#!/bin/bash
# s1.sh <seed id> <props...> : apply the seed in a scratch worktree and run the given checks
s=$1; shift
wt=/tmp/sw_$s; git -C /repo worktree add -q $wt HEAD && git -C $wt apply --whitespace=nowarn /verif/seeded/$s/patch.diff
for p in "$@"; do /verif/vcheck $p --no-evidence --root $wt | grep "^  src\|ANALYSIS\|^C[0-9][0-9]:" | cut -c1-330 | head -${LINES_MAX:-6}; done
git -C /repo worktree remove --force $wt
