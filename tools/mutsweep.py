#!/venv/bin/python
"""mutsweep.py [--files a.py,b.py] [--max N] [--out file] [--skip-tests]

Exploration tool (not a registered check): systematic AST mutants of the package sources.
For each mutant: (1) run the repository's test-suite in a scratch worktree -- mutants the suite
already kills are uninteresting; (2) run all 18 checks on the mutated source through the in-memory
overlay. Survivors (tests pass, no check fires) are printed for manual triage: each is either an
equivalent/benign edit or a blind spot of the checkers.
"""
import ast
import copy
import importlib
import json
import os
import subprocess
import sys
import time
from concurrent.futures import ProcessPoolExecutor

VERIF = os.path.dirname(os.path.dirname(os.path.abspath(__file__)))
sys.path.insert(0, VERIF)
from sa.loader import AnalysisError, Project  # noqa: E402
from sa.report import Check  # noqa: E402

PROPS = ["C01", "C02", "C04", "C05", "C06", "C07", "C08", "C09", "C10", "C11", "C12", "C13", "C14", "C15", "C16", "C17", "C18", "C19"]
FILES = ["core/optimisation.py", "core/contrast.py", "core/colors.py", "core/cm_colors.py", "core/color_parser.py", "core/conversions.py",
         "core/color_metrics.py", "cli/main.py", "cli/html_report.py", "core/visualiser.py"]
CMP_SWAP = {ast.GtE: ast.Gt, ast.Gt: ast.GtE, ast.LtE: ast.Lt, ast.Lt: ast.LtE, ast.Eq: ast.NotEq, ast.NotEq: ast.Eq, ast.Is: ast.IsNot, ast.IsNot: ast.Is, ast.In: ast.NotIn, ast.NotIn: ast.In}
BIN_SWAP = {ast.Add: ast.Sub, ast.Sub: ast.Add, ast.Mult: ast.Div, ast.Div: ast.Mult}


def mutants_of(src: str):
    tree = ast.parse(src)
    nodes = list(ast.walk(tree))
    out = []

    def emit(desc, mutate):
        t2 = copy.deepcopy(tree)
        n2 = list(ast.walk(t2))
        try:
            ok = mutate(n2)
        except Exception:
            return
        if ok is False:
            return
        try:
            code = ast.unparse(t2)
            compile(code, "<mutant>", "exec")
        except Exception:
            return
        out.append((desc, code))

    for i, n in enumerate(nodes):
        ln = getattr(n, "lineno", 0)
        if isinstance(n, ast.Compare) and len(n.ops) == 1 and type(n.ops[0]) in CMP_SWAP:
            emit(f"L{ln} cmp {type(n.ops[0]).__name__}->{CMP_SWAP[type(n.ops[0])].__name__}: {ast.unparse(n)[:60]}",
                 lambda ns, i=i: setattr(ns[i], "ops", [CMP_SWAP[type(ns[i].ops[0])]()]))
        if isinstance(n, ast.Constant) and isinstance(n.value, (int, float)) and not isinstance(n.value, bool):
            v = n.value
            for nv in ({v + 1, v * 2 if v else 1} if isinstance(v, int) else {v * 1.1 if v else 0.1, v + 0.5}):
                emit(f"L{ln} const {v!r}->{nv!r}", lambda ns, i=i, nv=nv: setattr(ns[i], "value", nv))
        if isinstance(n, ast.Constant) and isinstance(n.value, bool):
            emit(f"L{ln} bool {n.value}->{not n.value}", lambda ns, i=i: setattr(ns[i], "value", not ns[i].value))
        if isinstance(n, ast.BinOp) and type(n.op) in BIN_SWAP:
            emit(f"L{ln} binop {type(n.op).__name__}->{BIN_SWAP[type(n.op)].__name__}: {ast.unparse(n)[:50]}", lambda ns, i=i: setattr(ns[i], "op", BIN_SWAP[type(ns[i].op)]()))
        if isinstance(n, ast.If):
            emit(f"L{ln} negate if: {ast.unparse(n.test)[:50]}", lambda ns, i=i: setattr(ns[i], "test", ast.UnaryOp(op=ast.Not(), operand=ns[i].test)))
        if isinstance(n, ast.BoolOp):
            emit(f"L{ln} and<->or: {ast.unparse(n)[:50]}", lambda ns, i=i: setattr(ns[i], "op", ast.Or() if isinstance(ns[i].op, ast.And) else ast.And()))
        if isinstance(n, ast.Call) and len(n.args) >= 2 and all(isinstance(a, ast.Name) for a in n.args[:2]) and n.args[0].id != n.args[1].id:
            def sw(ns, i=i):
                ns[i].args[0], ns[i].args[1] = ns[i].args[1], ns[i].args[0]
            emit(f"L{ln} swap args: {ast.unparse(n)[:60]}", sw)
        if isinstance(n, (ast.Assign, ast.AugAssign, ast.Expr)) and not (isinstance(n, ast.Expr) and isinstance(n.value, ast.Constant)):
            # statement deletion (replace by pass) -- only inside function bodies
            def dele(ns, i=i):
                tgt = ns[i]
                for p in ns:
                    for fld in ("body", "orelse", "finalbody"):
                        lst = getattr(p, fld, None)
                        if isinstance(lst, list) and tgt in lst and not isinstance(p, ast.Module):
                            lst[lst.index(tgt)] = ast.copy_location(ast.Pass(), tgt)
                            return True
                return False
            emit(f"L{ln} delete stmt: {ast.unparse(n)[:60]}", dele)
        if isinstance(n, ast.Return) and n.value is not None and isinstance(n.value, ast.Tuple) and len(n.value.elts) == 2 and isinstance(n.value.elts[1], ast.Constant) and isinstance(n.value.elts[1].value, bool):
            pass  # covered by bool flip
        if isinstance(n, ast.Name) and isinstance(n.ctx, ast.Load) and n.id in ("min_contrast", "target_contrast"):
            other = "target_contrast" if n.id == "min_contrast" else "min_contrast"
            emit(f"L{ln} name {n.id}->{other}", lambda ns, i=i, other=other: setattr(ns[i], "id", other))
        if isinstance(n, ast.Name) and isinstance(n.ctx, ast.Load) and n.id in ("text_rgb", "bg_rgb"):
            other = "bg_rgb" if n.id == "text_rgb" else "text_rgb"
            emit(f"L{ln} name {n.id}->{other}", lambda ns, i=i, other=other: setattr(ns[i], "id", other))
    return out


def run_checks(rel, code):
    project = Project("/repo", {rel: code})
    fired, incon = [], []
    for pid in PROPS:
        mod = importlib.import_module(f"checks.{pid}")
        chk = Check(pid, "quick", quiet=True)
        try:
            mod.run(project, chk)
            chk.raise_unmet_floors()
            new, _ = chk.split_findings()
            if new:
                fired.append(pid)
        except AnalysisError:
            incon.append(pid)
        except Exception as e:
            incon.append(f"{pid}!{type(e).__name__}")
    return fired, incon


def work(args):
    k, rel, desc, code, wt, skip_tests = args
    t0 = time.time()
    tests = None
    if not skip_tests:
        path = os.path.join(wt, rel)
        orig = open(path).read()
        try:
            open(path, "w").write(code)
            env = dict(os.environ, PYTHONPATH=f"{wt}/src")
            p = subprocess.run("/venv/bin/python -m pytest -q -x -p no:cacheprovider --timeout=120 -q", shell=True, cwd=wt, env=env, capture_output=True, text=True, timeout=600)
            tests = p.returncode
        except subprocess.TimeoutExpired:
            tests = 99
        finally:
            open(path, "w").write(orig)
        if tests != 0:
            return (k, rel, desc, "tests-kill", [], [], round(time.time() - t0, 1))
    fired, incon = run_checks(rel, code)
    status = "killed" if fired else ("inconclusive" if incon else "SURVIVED")
    return (k, rel, desc, status, fired, incon, round(time.time() - t0, 1))


def main():
    files = FILES
    mx = None
    out_path = "/tmp/mutsweep.json"
    skip_tests = False
    for a in sys.argv[1:]:
        if a.startswith("--files="):
            files = a.split("=", 1)[1].split(",")
        elif a.startswith("--max="):
            mx = int(a.split("=", 1)[1])
        elif a.startswith("--out="):
            out_path = a.split("=", 1)[1]
        elif a == "--skip-tests":
            skip_tests = True
    nworkers = 14
    wts = []
    for w in range(nworkers):
        wt = f"/tmp/mutwt_{w}"
        if not os.path.exists(wt):
            subprocess.run(f"git -C /repo worktree add -q {wt} HEAD", shell=True, check=True)
        wts.append(wt)
    jobs = []
    for f in files:
        rel = os.path.join("src", "cm_colors", f)
        src = open(os.path.join("/repo", rel)).read()
        ms = mutants_of(src)
        if mx:
            ms = ms[:mx]
        for desc, code in ms:
            jobs.append((rel, desc, code))
    print(f"{len(jobs)} mutants over {len(files)} files", flush=True)
    results = []
    # a worker always uses its own worktree: partition jobs by index modulo workers
    args = [(k, rel, desc, code, wts[k % nworkers], skip_tests) for k, (rel, desc, code) in enumerate(jobs)]
    # each worktree must be used by one process at a time: run nworkers independent streams
    streams = [[a for a in args if a[0] % nworkers == w] for w in range(nworkers)]
    with ProcessPoolExecutor(max_workers=nworkers) as ex:
        futs = [ex.submit(stream_worker, s) for s in streams]
        for f in futs:
            results += f.result()
    results.sort()
    summary = {}
    for r in results:
        summary[r[3]] = summary.get(r[3], 0) + 1
    print(summary)
    for r in results:
        if r[3] in ("SURVIVED", "inconclusive"):
            print(r[3], r[1].split("/")[-1], r[2], r[5] if r[3] == "inconclusive" else "")
    json.dump({"summary": summary, "results": results}, open(out_path, "w"), indent=0)
    for wt in wts:
        subprocess.run(f"git -C /repo worktree remove --force {wt}", shell=True)


def stream_worker(stream):
    return [work(a) for a in stream]


if __name__ == "__main__":
    main()
