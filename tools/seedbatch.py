#!/venv/bin/python
"""seedbatch.py <worktree dir with seedK/ subdirs> <property id> : confirm + run all checks for each seedK of an agent's worktree,
copy confirmed ones to /verif/seeded/<pid>-seedK with meta.json."""
import json, os, shutil, subprocess, sys
VERIF = os.path.dirname(os.path.dirname(os.path.abspath(__file__)))
wt, pid = sys.argv[1], sys.argv[2]
ROUND = int(sys.argv[3]) if len(sys.argv) > 3 else 2
for k in sorted(os.listdir(wt)):
    d = os.path.join(wt, k)
    if not (k.startswith("seed") and os.path.isfile(os.path.join(d, "patch.diff")) and os.path.isfile(os.path.join(d, "demo.py"))):
        continue
    dest = os.path.join(VERIF, "seeded", f"{pid}-{k}")
    os.makedirs(dest, exist_ok=True)
    for f in ("patch.diff", "demo.py", "notes.md"):
        if os.path.isfile(os.path.join(d, f)):
            shutil.copy(os.path.join(d, f), dest)
    p = subprocess.run([os.path.join(VERIF, "tools", "seedcheck.py"), dest], capture_output=True, text=True)
    try:
        out = json.loads(p.stdout)
    except Exception:
        print(k, "seedcheck failed", p.stdout[-500:], p.stderr[-500:])
        continue
    meta = {"id": f"{pid}-{k}", "breaks_property": pid, "round": ROUND,
            "author": "independent sub-agent given only the property text and a scratch worktree of /repo",
            "confirmed_by_me": {k2: out.get(k2) for k2 in ("demo_clean_rc", "apply_rc", "tests_rc", "tests_tail", "demo_patched_rc", "demo_patched_tail", "confirmed")},
            "checks_exit_codes": out.get("checks"), "checks_that_report_it": sorted(out.get("fired", {})), "inconclusive": sorted(out.get("inconclusive", {})),
            "own_check_reports_it": out.get("checks", {}).get(pid) == 1, "report_lines": {**out.get("fired", {}), **out.get("inconclusive", {})},
            "harness": f"/verif/tools/seedcheck.py /verif/seeded/{pid}-{k}"}
    json.dump(meta, open(os.path.join(dest, "meta.json"), "w"), indent=1)
    own = out.get("checks", {}).get(pid)
    print(f"{pid}-{k}: confirmed={out.get('confirmed')} own={own} fired={sorted(out.get('fired', {}))} inconclusive={sorted(out.get('inconclusive', {}))}")
    for l in (out.get("fired", {}).get(pid) or out.get("inconclusive", {}).get(pid) or [])[:2]:
        print("     ", l[:260])
